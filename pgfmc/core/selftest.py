"""setup_cmd: nothing to build (pure Python); verify that the tool chain is usable."""
import importlib
import json
import os
import sys


def run():
    ok = True
    try:
        import numpy  # noqa
        import scipy  # noqa
        import pygradflow.solver  # noqa

        print("selftest: pygradflow importable from", os.path.dirname(pygradflow.solver.__file__))
    except Exception as e:  # pragma: no cover
        print("selftest: import failed:", e)
        ok = False
    here = os.path.dirname(os.path.dirname(os.path.dirname(os.path.abspath(__file__))))
    man = json.load(open(os.path.join(here, "MANIFEST.json")))
    for c in man["checks"]:
        try:
            importlib.import_module("pgfmc.props." + c["property_id"].lower())
        except Exception as e:
            print("selftest: cannot import check", c["property_id"], e)
            ok = False
    os.makedirs(os.path.join(here, "evidence"), exist_ok=True)
    os.makedirs(os.path.join(here, "replays"), exist_ok=True)
    print("selftest:", "ok" if ok else "FAILED")
    return 0 if ok else 1
