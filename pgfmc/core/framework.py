"""Explorer core: enumerate a finite case table exhaustively, execute every case on
the real code in worker processes, collect violations, match them against the
known-findings file, write evidence and replay artefacts.

A *check* is a module in pgfmc.props with:
    ID, LEVEL, RULE, ASSUMPTIONS
    cases(tier, seed) -> list of JSON-serialisable dicts (the complete table)
    run_case(case) -> dict(outcome=str, key=str|None, violations=[...], stats={...})
    summarize(results, tier) -> dict of extra coverage keys (optional)
    vacuity(results, tier) -> list of harness-error strings (optional)
"""
import hashlib
import json
import math
import multiprocessing as mp
import os
import random
import signal
import subprocess
import sys
import time
import traceback

VERIF = os.path.dirname(os.path.dirname(os.path.dirname(os.path.abspath(__file__))))
# the two overrides are used only when evaluating seeded changes, so that the committed evidence is not clobbered
EVIDENCE_DIR = os.environ.get("VERIF_EVIDENCE_DIR") or os.path.join(VERIF, "evidence")
REPLAY_DIR = os.environ.get("VERIF_REPLAY_DIR") or os.path.join(VERIF, "replays")
FINDINGS_FILE = os.path.join(VERIF, "known_findings.json")
T_IMPORT = time.time()
NPROC = int(os.environ.get("VERIF_NPROC", str(min(16, os.cpu_count() or 1))))


class CaseTimeout(BaseException):
    pass


def _alarm(signum, frame):
    raise CaseTimeout()


def jsonable(o):
    """Convert to strictly valid JSON (no NaN/Infinity, no numpy types)."""
    import numpy as np

    if isinstance(o, dict):
        return {str(k): jsonable(v) for k, v in o.items()}
    if isinstance(o, (list, tuple)):
        return [jsonable(v) for v in o]
    if isinstance(o, np.ndarray):
        return jsonable(o.tolist())
    if isinstance(o, (np.bool_,)):
        return bool(o)
    if isinstance(o, np.integer):
        return int(o)
    if isinstance(o, (float, np.floating)):
        f = float(o)
        if math.isnan(f):
            return "nan"
        if math.isinf(f):
            return "inf" if f > 0 else "-inf"
        return f
    if isinstance(o, (str, int, bool)) or o is None:
        return o
    return repr(o)


def unjson(o):
    """Inverse of jsonable for the float sentinels (used when replaying)."""
    if isinstance(o, dict):
        return {k: unjson(v) for k, v in o.items()}
    if isinstance(o, list):
        return [unjson(v) for v in o]
    if o == "inf":
        return math.inf
    if o == "-inf":
        return -math.inf
    if o == "nan":
        return math.nan
    return o


def digest(obj):
    return hashlib.sha256(
        json.dumps(jsonable(obj), sort_keys=True).encode()
    ).hexdigest()[:16]


_MOD = None
_LINES = set()      # (file, line) executed in anchored files, this worker, not yet reported
_ANCHOR_FILES = ()


def anchors_of(prop):
    """[(file, lo, hi, name)] parsed from the 'where' fields of the property's mechanism anchors."""
    import re

    out = []
    try:
        with open(os.path.join(VERIF, "properties.jsonl")) as f:
            for line in f:
                p = json.loads(line)
                if p["id"] != prop:
                    continue
                for m in p["anchors"].get("mechanism", []):
                    last_file = None
                    for part in re.split(r"[,;]\s*", m.get("where", "")):
                        mm = re.match(r"\s*([\w/\.]+\.py)?:?\s*(\d+)(?:-(\d+))?\s*$", part)
                        if not mm:
                            continue
                        fn = mm.group(1) or last_file
                        if fn is None:
                            continue
                        if not fn.startswith("pygradflow/"):
                            # bare file names refer to the directory of the previous entry
                            fn = os.path.join(os.path.dirname(last_file or "pygradflow/x"), fn)
                        last_file = fn
                        lo = int(mm.group(2)); hi = int(mm.group(3) or mm.group(2))
                        out.append((fn, lo, hi, m.get("name", "")))
    except Exception:
        return []
    return out


def _witness_start(prop):
    """PEP 669 line witness over the property's anchored files: every line reports once, then disables itself."""
    global _ANCHOR_FILES
    if prop is None or not hasattr(sys, "monitoring"):
        return
    files = {a[0] for a in anchors_of(prop)}
    if not files:
        return
    _ANCHOR_FILES = tuple(files)
    mon = sys.monitoring
    tool = 3
    try:
        mon.use_tool_id(tool, "pgfmc-witness")
    except ValueError:
        return

    def on_line(code, line):
        fn = code.co_filename
        i = fn.find("/pygradflow/")
        if i >= 0:
            rel = fn[i + 1:]
            if rel in _ANCHOR_FILES:
                _LINES.add((rel, line))
        return mon.DISABLE

    mon.register_callback(tool, mon.events.LINE, on_line)
    mon.set_events(tool, mon.events.LINE)


def _worker_init(modname):
    global _MOD
    import importlib

    import logging
    import warnings

    warnings.filterwarnings("ignore")
    lg = logging.getLogger("gradflow")
    lg.propagate = False
    if not lg.handlers:
        lg.addHandler(logging.NullHandler())
    lg.setLevel(logging.WARNING)
    _MOD = importlib.import_module(modname)
    signal.signal(signal.SIGALRM, _alarm)
    _witness_start(getattr(_MOD, "ID", None))


def _run_one(arg):
    idx, case = arg
    horizon = int(case.get("_alarm", getattr(_MOD, "CASE_ALARM_S", 120)))
    t0 = time.time()
    signal.alarm(horizon)
    try:
        res = _MOD.run_case(case)
    except CaseTimeout:
        tv = getattr(_MOD, "TIMEOUT_IS_VIOLATION", None)
        if tv:
            # every solve of this check carries an iteration limit: not returning within an alarm that is
            # >1000x the normal duration means the limit was not honoured
            res = {"outcome": "no-return", "key": None, "stats": {},
                   "violations": [{"sig": f"{_MOD.ID}|no_return_within_alarm",
                                   "msg": f"{tv} (alarm {horizon}s)"}]}
        else:
            res = {"outcome": "harness-timeout", "key": None, "violations": [],
                   "stats": {}, "timeout": True}
    except BaseException as e:  # harness bug: never a violation
        res = {"outcome": "harness-error", "key": None, "violations": [],
               "stats": {}, "harness_error": "".join(
                   traceback.format_exception(type(e), e, e.__traceback__))[-3000:]}
    finally:
        signal.alarm(0)
    res["_t"] = time.time() - t0
    if _LINES:
        res["_lines"] = list(_LINES)
        _LINES.clear()
    return idx, res


def load_findings():
    if not os.path.exists(FINDINGS_FILE):
        return {"findings": [], "fixed": []}
    with open(FINDINGS_FILE) as f:
        return json.load(f)


def match_finding(findings, prop, sig):
    import re

    for f in findings.get("findings", []):
        if f["property"] == prop and re.fullmatch(f["match"], sig):
            return f
    return None


def explore(mod, tier, seed):
    """Run all cases of module `mod`; returns (results list aligned with cases)."""
    signal.signal(signal.SIGALRM, _alarm)
    signal.alarm(int(getattr(mod, "CASES_ALARM_S", 1200)))
    try:
        cases = mod.cases(tier, seed)
    except CaseTimeout:
        tv = getattr(mod, "TIMEOUT_IS_VIOLATION", None)
        res = {"outcome": "no-return", "key": None, "stats": {}, "violations": []}
        if tv:
            res["violations"] = [{"sig": f"{mod.ID}|no_return_within_alarm", "msg": f"{tv} (while preparing the case table: a reference run did not return)"}]
        else:
            res["harness_error"] = "building the case table exceeded its alarm"
        return [{"stage": "case-table"}], [res], 0.0
    finally:
        signal.alarm(0)
    order = list(range(len(cases)))
    random.Random(seed).shuffle(order)  # seed only permutes dispatch order
    results = [None] * len(cases)
    nproc = min(NPROC, max(1, len(cases)))
    serial = getattr(mod, "SERIAL", False) or nproc == 1
    t0 = time.time()
    if serial:
        _worker_init(mod.__name__)
        for i in order:
            idx, res = _run_one((i, cases[i]))
            results[idx] = res
    else:
        ctx = mp.get_context("fork")
        chunk = max(1, min(64, len(cases) // (nproc * 8)))
        fresh = getattr(mod, "FRESH", False)  # one fresh (forked from the pristine parent) process per case
        if fresh:
            chunk = 1
        with ctx.Pool(nproc, initializer=_worker_init, initargs=(mod.__name__,),
                      maxtasksperchild=1 if fresh else None) as pool:
            for idx, res in pool.imap_unordered(
                _run_one, [(i, cases[i]) for i in order], chunksize=chunk
            ):
                results[idx] = res
    return cases, results, time.time() - t0


def write_replay(prop, case, violation):
    d = os.path.join(REPLAY_DIR, prop)
    os.makedirs(d, exist_ok=True)
    body = {"property": prop, "case": jsonable(case), "violation": jsonable(violation)}
    path = os.path.join(d, digest([case, violation.get("sig")]) + ".json")
    with open(path, "w") as f:
        json.dump(body, f, indent=1, sort_keys=True)
    return path


def validate_evidence(path):
    schema = "/root/.vp/EVIDENCE.schema.json"
    if not os.path.exists(schema) or not os.path.exists("/opt/veriftools/pyvenv/bin/python"):
        return None
    code = (
        "import json,jsonschema,sys;"
        "jsonschema.validate(json.load(open(sys.argv[1])),json.load(open(sys.argv[2])))"
    )
    p = subprocess.run(
        ["/opt/veriftools/pyvenv/bin/python", "-c", code, path, schema],
        capture_output=True, text=True, env={"PATH": os.environ.get("PATH", "")},
    )
    return p.returncode == 0, p.stderr[-2000:]


def run_check(mod, tier, seed):
    import warnings

    warnings.filterwarnings("ignore")
    prop = mod.ID
    t_start = time.time()
    findings = load_findings()
    cases, results, wall = explore(mod, tier, seed)

    harness_errors = []
    timeouts = 0
    outcomes = {}
    keys = set()
    new_viol = []  # (case, violation)
    known_hits = {}
    n_viol_total = 0
    for case, res in zip(cases, results):
        if res.get("harness_error"):
            harness_errors.append((case, res["harness_error"]))
        if res.get("timeout"):
            timeouts += 1
        outcomes[res["outcome"]] = outcomes.get(res["outcome"], 0) + 1
        k = res.get("key")
        if k is not None:
            if isinstance(k, (list, tuple, set)):
                keys.update(str(x) for x in k)
            else:
                keys.add(str(k))
        for v in res.get("violations", []):
            n_viol_total += 1
            f = match_finding(findings, prop, v["sig"])
            if f is not None:
                known_hits.setdefault(f["match"], [f, 0, v])
                known_hits[f["match"]][1] += 1
            else:
                new_viol.append((case, v))

    executed = set()
    for res in results:
        for fl in res.pop("_lines", []):
            executed.add(tuple(fl))
    anchor_report = None
    anc = anchors_of(prop)
    if anc and hasattr(sys, "monitoring"):
        hit, miss = [], []
        for (fn, lo, hi, name) in anc:
            ok = any(f == fn and lo - 4 <= ln <= hi + 12 for (f, ln) in executed)
            (hit if ok else miss).append(f"{fn}:{lo}-{hi}")
        anchor_report = {"anchor_ranges": len(anc), "executed": len(hit), "not_executed": miss,
                         "note": "line witness (PEP 669) over the files named by the property's mechanism anchors; line numbers refer to the pinned tree, a window of -4/+12 lines absorbs the fix commits"}
    extra = {}
    if hasattr(mod, "summarize"):
        extra = mod.summarize(cases, results, tier) or {}
    vac = []
    if hasattr(mod, "vacuity"):
        vac = mod.vacuity(cases, results, tier) or []

    # allow timeouts only where the module says they are expected
    allowed_to = getattr(mod, "TIMEOUTS_OK", False)
    if timeouts and not allowed_to:
        harness_errors.append(({"timeouts": timeouts}, "cases hit the per-case alarm"))

    samples = []
    if hasattr(mod, "samples"):
        samples = mod.samples(cases, results)
    else:
        step = max(1, len(cases) // 3)
        for i in range(0, len(cases), step):
            samples.append({"case": cases[i], "outcome": results[i]["outcome"]})
        samples = samples[:4]

    coverage = {
        "evaluations": len(cases),
        "distinct_nontrivial": len(keys),
        "rule": mod.RULE,
        "samples": jsonable(samples),
        "exhaustive": not bool(getattr(mod, "CAPPED", False)) and timeouts == 0,
        "outcomes": outcomes,
        "distinct_outcomes": len(outcomes),
        "timeouts": timeouts,
        "known_finding_hits": {m: h[1] for m, h in known_hits.items()},
        "tier_table": getattr(mod, "TABLE", {}).get(tier) if hasattr(mod, "TABLE") else None,
    }
    coverage.update(jsonable(extra))
    if anchor_report is not None:
        coverage["anchor_witness"] = anchor_report
        if anchor_report["anchor_ranges"] and anchor_report["executed"] * 2 < anchor_report["anchor_ranges"]:
            vac = list(vac) + [f"fewer than half of the property's anchored mechanism ranges were executed: {anchor_report}"]

    # group new violations by signature; write up to 5 replays per signature
    by_sig = {}
    for case, v in new_viol:
        by_sig.setdefault(v["sig"], []).append((case, v))
    replay_paths = []
    for sig, lst in sorted(by_sig.items()):
        case, v = min(lst, key=lambda cv: len(json.dumps(jsonable(cv[1].get("case", cv[0])))))
        v = dict(v)
        rcase = v.pop("case", case)  # a violation may carry its own minimal case
        replay_paths.append((sig, write_replay(prop, rcase, v), len(lst), v.get("msg", "")))

    ev = {
        "property_id": prop,
        "tier": tier,
        "seed": int(seed),
        "level": mod.LEVEL,
        "coverage": coverage,
        "assumptions": list(getattr(mod, "ASSUMPTIONS", [])),
        "wall_s": round(time.time() - t_start, 3),
        "violations": len(new_viol),
    }
    os.makedirs(EVIDENCE_DIR, exist_ok=True)
    evpath = os.path.join(EVIDENCE_DIR, prop + ".json")
    with open(evpath, "w") as f:
        json.dump(ev, f, indent=1, sort_keys=True)
    val = validate_evidence(evpath)

    print(f"[{prop}] tier={tier} seed={seed} cases={len(cases)} distinct_nontrivial={len(keys)} "
          f"outcomes={outcomes} wall={time.time() - t_start:.1f}s")
    for k, v in sorted(extra.items()):
        if isinstance(v, (int, float, str, bool)):
            print(f"[{prop}]   {k}={v}")
    for m, (f, cnt, v) in sorted(known_hits.items()):
        print(f"KNOWN-FINDING: property={prop} {f['what']} (hits={cnt})")
    for sig, path, cnt, msg in replay_paths:
        print(f"VIOLATION property={prop} replay={path}")
        print(f"   sig={sig} count={cnt} :: {msg[:300]}")
    rc = 0
    if harness_errors or vac or (val is not None and not val[0]):
        for case, err in harness_errors[:5]:
            print(f"HARNESS-ERROR property={prop} case={json.dumps(jsonable(case))[:300]}\n{err}")
        for v in vac:
            print(f"HARNESS-ERROR property={prop} vacuity: {v}")
        if val is not None and not val[0]:
            print(f"HARNESS-ERROR property={prop} evidence does not validate: {val[1]}")
        rc = 2
    if replay_paths:
        rc = 1
    return rc


def replay(path):
    import importlib

    with open(path) as f:
        body = json.load(f)
    prop = body["property"]
    mod = importlib.import_module("pgfmc.props." + prop.lower())
    case = unjson(body["case"])
    _worker_init(mod.__name__)
    _, res = _run_one((0, case))
    if res.get("harness_error"):
        print("HARNESS-ERROR during replay\n" + res["harness_error"])
        return 2
    print(f"[{prop}] replay outcome={res['outcome']} violations={len(res['violations'])}")
    want = (body.get("violation") or {}).get("sig")
    sigs = [v["sig"] for v in res["violations"]]
    for v in res["violations"]:
        print(f"   sig={v['sig']} :: {v.get('msg', '')[:500]}")
    if res["violations"]:
        print(f"VIOLATION property={prop} replay={path}")
        if want and want not in sigs:
            print(f"   note: recorded signature {want} not reproduced (other violation seen)")
        return 1
    print("replay: property holds on this case")
    return 0
