"""pygradflow Problem objects built from specs, plus recording / fault-injecting /
caching wrappers.  The mathematics comes from model.oracle.Funcs (the spec *is* the
user's problem); what is under test is everything pygradflow does with it."""
import sys

import numpy as np
import scipy.sparse as sps

from pygradflow.problem import Problem

from pgfmc.model.oracle import Funcs


def to_sparse(dense, pattern, fmt):
    rows, cols = np.nonzero(pattern)
    vals = dense[rows, cols].astype(float)
    shape = dense.shape
    if fmt == "coo_dup":
        # every entry split into two exact halves: duplicate COO entries must be summed
        rows = np.concatenate([rows, rows])
        cols = np.concatenate([cols, cols])
        vals = np.concatenate([vals * 0.5, vals * 0.5])
        return sps.coo_matrix((vals, (rows, cols)), shape=shape)
    m = sps.coo_matrix((vals, (rows, cols)), shape=shape)
    if fmt == "coo":
        return m
    if fmt == "csr":
        return m.tocsr()
    if fmt == "csc":
        return m.tocsc()
    if fmt in ("dia", "lil", "dok", "bsr"):
        return m.asformat(fmt)
    if fmt in ("csr_dup", "csc_dup"):
        # compressed storage with repeated stored entries for one position (a matrix assembled term by term): every entry as two halves
        order = np.lexsort((cols, rows)) if fmt == "csr_dup" else np.lexsort((rows, cols))
        r, c, v = rows[order], cols[order], vals[order]
        major = r if fmt == "csr_dup" else c
        minor = c if fmt == "csr_dup" else r
        nmaj = shape[0] if fmt == "csr_dup" else shape[1]
        data = np.repeat(0.5 * v, 2)
        indices = np.repeat(minor, 2)
        indptr = np.zeros(nmaj + 1, dtype=int)
        np.add.at(indptr, major + 1, 2)
        indptr = np.cumsum(indptr)
        cls = sps.csr_matrix if fmt == "csr_dup" else sps.csc_matrix
        return cls((data, indices, indptr), shape=shape)
    raise ValueError(fmt)


class UserProblem(Problem):
    """The user's problem.  fmt: coo|coo_dup|csr|csc;  policy: fresh|const|memo."""

    def __init__(self, spec):
        self.spec = spec
        F = self.F = Funcs(spec)
        self.fmt = spec.get("fmt", "coo")
        self.policy = spec.get("policy", "fresh")
        self.jpat = F.jac_pattern()
        self.hpat = F.hess_pattern()
        self._memo = {}
        self._const = {}
        vlb, vub = F.var_lb, F.var_ub
        if spec.get("intbounds"):
            # the user wrote the bounds as integers: Problem(np.array([1, 1]), np.array([4, 6]))
            vlb, vub = np.array(vlb).astype(np.int64), np.array(vub).astype(np.int64)
        clb, cub = F.cons_lb.copy(), F.cons_ub.copy()
        if spec.get("intbounds") and F.m > 0 and np.isfinite(clb).all() and np.isfinite(cub).all() and (clb == np.round(clb)).all() and (cub == np.round(cub)).all():
            clb, cub = clb.astype(np.int64), cub.astype(np.int64)
        if F.m > 0:
            super().__init__(vlb, vub, cons_lb=clb, cons_ub=cub)
        else:
            super().__init__(vlb, vub)
        self.jac_const = not any(F.hasQ) and not F.ccub.any() and not F.cpcub.any()
        self.hess_const = (self.jac_const and not F.cub.any() and not F.quart.any()
                           and F.exp is None and F.logbar is None and not F.rosen and not F.entropy)

    def _ret(self, kind, key, make, const_ok=False):
        if self.policy == "fresh":
            return make()
        if self.policy == "const" and const_ok:
            if kind not in self._const:
                self._const[kind] = make()
            return self._const[kind]
        if self.policy == "memo" or (self.policy == "const" and not const_ok):
            if self.policy == "const":
                return make()
            k = (kind, key)
            if k not in self._memo:
                self._memo[k] = make()
            return self._memo[k]
        raise ValueError(self.policy)

    def obj(self, x):
        return self.F.f(x)

    def obj_grad(self, x):
        return self._ret("grad", x.tobytes(), lambda: self.F.grad(x))

    def cons(self, x):
        return self._ret("cons", x.tobytes(), lambda: self.F.c(x))

    def _int(self, M, const):
        """spec["idtype"]: constant integer-valued matrices are returned with an integer dtype (a constant Jacobian built
        from a list of ints, as in sp.sparse.coo_matrix([[1, 1]]))."""
        if self.spec.get("idtype") and const and np.all(M.data == np.round(M.data)):
            return M.astype(np.int64)
        return M

    def _pat(self, dense, pattern):
        # spec["nzpat"]: store exactly the current non-zeros (coo_matrix(dense) style) instead of the structural pattern
        return (dense != 0) if self.spec.get("nzpat") else pattern

    def cons_jac(self, x):
        if self.spec.get("nzpat"):
            return self._ret("jac", x.tobytes(), lambda: to_sparse(self.F.jac(x), self.F.jac(x) != 0, self.fmt))
        return self._ret("jac", x.tobytes(), lambda: self._int(to_sparse(self.F.jac(x), self.jpat, self.fmt), self.jac_const),
                         const_ok=self.jac_const)

    def lag_hess(self, x, y):
        if self.spec.get("nzpat"):
            return self._ret("hess", x.tobytes() + y.tobytes(), lambda: to_sparse(self.F.hessL(x, y), self.F.hessL(x, y) != 0, self.fmt))
        return self._ret("hess", x.tobytes() + y.tobytes(),
                         lambda: self._int(to_sparse(self.F.hessL(x, y), self.hpat, self.fmt), self.hess_const),
                         const_ok=self.hess_const)


# ----------------------------------------------------------------------------------
def _site():
    """Innermost pygradflow frame (file:function) that issued the current callback."""
    f = sys._getframe(2)
    chain = []
    while f is not None:
        fn = f.f_code.co_filename
        if "/pygradflow/" in fn and "/pgfmc/" not in fn:
            chain.append(fn.split("/pygradflow/")[-1] + ":" + f.f_code.co_name)
        f = f.f_back
    return chain


class RecordingProblem(Problem):
    """Wraps a problem; records (kind, x copy, call-site chain) of every callback and
    value snapshots of every returned array/matrix."""

    def __init__(self, inner, record_sites=True, snapshot=False):
        self.inner = inner
        self.calls = []  # (kind, x, chain)
        self.record_sites = record_sites
        self.snapshot = snapshot
        self.returned = []  # (kind, obj, snapshot)
        if inner.num_cons > 0:
            super().__init__(inner.var_lb, inner.var_ub, cons_lb=inner.cons_lb, cons_ub=inner.cons_ub)
        else:
            super().__init__(inner.var_lb, inner.var_ub)

    def _rec(self, kind, x, ret):
        self.calls.append((kind, np.array(x, dtype=float), _site() if self.record_sites else None))
        if self.snapshot:
            self.returned.append((kind, ret, snap(ret)))
        return ret

    def obj(self, x):
        return self._rec("obj", x, self.inner.obj(x))

    def obj_grad(self, x):
        return self._rec("grad", x, self.inner.obj_grad(x))

    def cons(self, x):
        return self._rec("cons", x, self.inner.cons(x))

    def cons_jac(self, x):
        return self._rec("jac", x, self.inner.cons_jac(x))

    def lag_hess(self, x, y):
        return self._rec("hess", x, self.inner.lag_hess(x, y))


def snap(o):
    if sps.issparse(o):
        c = o.tocoo(copy=True)
        d = np.zeros(o.shape)
        np.add.at(d, (c.row, c.col), c.data)
        return ("sp", o.format, d.tobytes(), np.array(o.data, copy=True).tobytes())
    if isinstance(o, np.ndarray):
        return ("nd", o.tobytes())
    return ("sc", repr(o))


class FaultProblem(Problem):
    """Transient fault: the k-th call (1-based, counted per kind) of `kind` returns a
    non-finite value.  Region fault: every call with x inside the region is non-finite."""

    def __init__(self, inner, kind=None, k=None, region=None, faults=None, region_kinds=None):
        self.inner = inner
        self.region_kinds = region_kinds  # None = the region affects every kind
        self.faults = set(faults or [])
        if kind is not None:
            self.faults.add((kind, k))
        self.region = region
        self.counts = {"obj": 0, "grad": 0, "cons": 0, "jac": 0, "hess": 0}
        self.fired = []  # (kind, k, x)
        if inner.num_cons > 0:
            super().__init__(inner.var_lb, inner.var_ub, cons_lb=inner.cons_lb, cons_ub=inner.cons_ub)
        else:
            super().__init__(inner.var_lb, inner.var_ub)

    def in_region(self, x):
        r = self.region
        if r is None:
            return False
        x = np.asarray(x)[: len(r["c"])] if "c" in r else np.asarray(x)
        if r["kind"] == "ball":
            return float(np.linalg.norm(x - np.array(r["c"]))) < r["r"]
        if r["kind"] == "half":
            return float(np.dot(r["a"], x[: len(r["a"])])) > r["b"]
        raise ValueError(r)

    def _bad(self, kind, x):
        self.counts[kind] += 1
        k = self.counts[kind]
        if (kind, k) in self.faults or ((self.region_kinds is None or kind in self.region_kinds) and self.in_region(x)):
            self.fired.append((kind, k, np.array(x, dtype=float)))
            return True
        return False

    def obj(self, x):
        v = self.inner.obj(x)
        return float("nan") if self._bad("obj", x) else v

    def obj_grad(self, x):
        v = self.inner.obj_grad(x)
        if self._bad("grad", x):
            v = np.array(v, dtype=float, copy=True)
            v[0] = np.nan
        return v

    def cons(self, x):
        v = self.inner.cons(x)
        if self._bad("cons", x):
            v = np.array(v, dtype=float, copy=True)
            v[-1] = np.inf
        return v

    def cons_jac(self, x):
        v = self.inner.cons_jac(x)
        if self._bad("jac", x):
            v = v.copy()
            if v.nnz:
                v.data[0] = np.nan
            else:
                v = sps.coo_matrix(([np.nan], ([0], [0])), shape=v.shape)
        return v

    def lag_hess(self, x, y):
        v = self.inner.lag_hess(x, y)
        if self._bad("hess", x):
            v = v.copy()
            if v.nnz:
                v.data[0] = np.nan
            else:
                v = sps.coo_matrix(([np.nan], ([0], [0])), shape=v.shape)
        return v


class TickingProblem(Problem):
    """Every callback evaluation lets `dt` seconds pass on the given virtual clock (expensive user functions)."""

    def __init__(self, inner, clock, dt=1.0):
        self.inner, self.clock, self.dt = inner, clock, dt
        self.evals = 0
        if inner.num_cons > 0:
            super().__init__(inner.var_lb, inner.var_ub, cons_lb=inner.cons_lb, cons_ub=inner.cons_ub)
        else:
            super().__init__(inner.var_lb, inner.var_ub)

    def _tick(self):
        self.evals += 1
        self.clock.offset += self.dt

    def obj(self, x):
        self._tick()
        return self.inner.obj(x)

    def obj_grad(self, x):
        self._tick()
        return self.inner.obj_grad(x)

    def cons(self, x):
        self._tick()
        return self.inner.cons(x)

    def cons_jac(self, x):
        self._tick()
        return self.inner.cons_jac(x)

    def lag_hess(self, x, y):
        self._tick()
        return self.inner.lag_hess(x, y)
