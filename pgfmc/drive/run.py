"""Drivers: parameter construction from JSON configs, a recording Solver subclass, a
virtual clock, fault-injecting linear solvers, and `run_solve` which executes one
complete solve() on the real code and returns everything the monitors need."""
import hashlib
import logging
import struct
import traceback

import numpy as np

import pygradflow.linear_solver as pls
import pygradflow.timer as ptimer
from pygradflow.callbacks import CallbackType
from pygradflow.linear_solver import LinearSolverError
from pygradflow.params import (
    ActiveSetType,
    DerivCheck,
    LinearSolverType,
    NewtonType,
    Params,
    PenaltyUpdate,
    ScalingType,
    StepControlType,
    StepSolverType,
)
from pygradflow.scale import Scaling
from pygradflow.solver import Solver

NEWTONS = ["Simplified", "Full", "ActiveSet", "Globalized"]
STEP_SOLVERS = ["Symmetric", "Standard", "Extended", "Asymmetric"]
LINEARS = ["LU", "GMRES", "MINRES"]
CONTROLS = ["DistanceRatio", "Exact", "Fixed", "ResiduumRatio"]
PENALTIES = ["DualNorm", "Constant", "DualEquilibration", "ParetoDecrease", "ObjectiveFilter", "LagrangianFilter"]
ACTIVE_SETS = ["Standard", "Explicit", "SmallestActiveSet", "LargestActiveSet"]

DELIBERATE = (
    "Failed to evaluate initial iterate",
    "Inverse step size",
    "Line search failed to converge",
)

class SinkHandler(logging.Handler):
    """Formats every record that passes the level (so formatting code runs) and drops it."""

    def emit(self, record):
        record.getMessage()


LOGGER = logging.getLogger("gradflow")  # the name pygradflow.log uses
LOGGER.setLevel(logging.WARNING)
LOGGER.handlers[:] = [SinkHandler()]
LOGGER.propagate = False


def valid_combo(cfg):
    if cfg.get("linear", "LU") == "MINRES" and cfg.get("step_solver", "Symmetric") != "Symmetric":
        return False
    return True


def make_scaling(sc, params_kw):
    if sc is None:
        return
    if sc["type"] == "custom":
        params_kw["scaling_type"] = ScalingType.Custom
        params_kw["scaling"] = Scaling(np.array(sc["vw"], dtype=int), np.array(sc["cw"], dtype=int), int(sc.get("ow", 0)))
    else:
        params_kw["scaling_type"] = ScalingType[sc["type"]]
        params_kw["scaling_primal"] = np.array(sc["at"], dtype=float)
        if sc.get("dual") is not None:
            params_kw["scaling_dual"] = np.array(sc["dual"], dtype=float)


def make_params(cfg, scaling=None):
    kw = {}
    kw["newton_type"] = NewtonType[cfg.get("newton", "Simplified")]
    kw["step_solver_type"] = StepSolverType[cfg.get("step_solver", "Symmetric")]
    kw["linear_solver_type"] = LinearSolverType[cfg.get("linear", "LU")]
    kw["step_control_type"] = StepControlType[cfg.get("control", "DistanceRatio")]
    kw["penalty_update"] = PenaltyUpdate[cfg.get("penalty", "DualNorm")]
    ast = cfg.get("active_set", "Standard")
    kw["active_set_type"] = ActiveSetType[ast]
    if ast == "Explicit":
        kw["active_set_tau"] = cfg.get("tau", 0.5)
    kw["iteration_limit"] = cfg.get("iteration_limit", 200)
    kw["display_interval"] = cfg.get("display_interval", float("inf"))
    if cfg.get("deriv_check"):
        kw["deriv_check"] = DerivCheck[cfg["deriv_check"]]
    for k, v in (cfg.get("params") or {}).items():
        kw[k] = v
    make_scaling(scaling, kw)
    return Params(**kw)


def weights_of(solver):
    sc = solver.transform.scaling
    if sc is None:
        return None
    return {"vw": [int(v) for v in sc.var_weights], "cw": [int(v) for v in sc.cons_weights], "ow": int(sc.obj_weight)}


class Trial:
    __slots__ = ("it_in", "rho", "dt", "lamb", "accepted", "it_out", "display", "active_set", "failed")

    def __init__(self, it_in, rho, dt, res, display):
        self.it_in, self.rho, self.dt = it_in, rho, dt
        self.lamb, self.accepted, self.it_out = res.lamb, bool(res.accepted), res.iterate
        self.display = display
        self.active_set = res.active_set
        self.failed = False

    def bytes(self):
        return b"".join([
            self.it_in.x.tobytes(), self.it_in.y.tobytes(), struct.pack("<ddd?", self.rho, self.dt, self.lamb, self.accepted),
            self.it_out.x.tobytes(), self.it_out.y.tobytes(),
        ])


class RecSolver(Solver):
    """Records every trial step and every ComputedStep callback."""

    def __init__(self, problem, params, record_callbacks=True):
        super().__init__(problem, params)
        self.trials = []
        self.final_iterate = None
        self.cb = []  # (iterate, next_iterate, accept, solver.rho at callback time)
        if record_callbacks:
            self.callbacks.register(CallbackType.ComputedStep, self._on_step)

    def _on_step(self, iterate, next_iterate, accept):
        self.cb.append((iterate, next_iterate, bool(accept), self.rho))
        return len(self.cb)  # what an observer returns must not matter (a tally returning its running count)

    def _compute_step(self, controller, iterate, rho, dt, display, timer):
        res = super()._compute_step(controller, iterate, rho, dt, display, timer)
        self.trials.append(Trial(iterate, rho, dt, res, display))
        return res

    def print_result(self, **kw):
        # called once at the end of solve() with the iterate the result is built from
        self.final_iterate = kw["iterate"]
        self.final_info = {k: kw[k] for k in ("rho_init", "rho_final", "num_penalty_changes", "accepted_steps", "iterations")}
        return super().print_result(**kw)


class VirtualClock:
    """Replaces time.time in pygradflow.timer.  Reads return start + idx*tick until read
    number `expire_at` (1-based), from which on they return a value past any deadline."""

    def __init__(self, expire_at=None, tick=1e-6, jump=1e9):
        self.offset = 0.0  # advanced from outside (e.g. by TickingProblem: time that passes while user functions are evaluated)
        self.reads = 0
        self.expire_at = expire_at
        self.tick = tick
        self.jump = jump
        self.sites = []
        self.site_ids = []  # identity of the timer object behind each read
        self.record_sites = False

    def time(self):
        self.reads += 1
        if self.record_sites:
            import sys
            f = sys._getframe(1)
            chain = []
            while f is not None and len(chain) < 4:
                chain.append(f.f_code.co_name)
                f = f.f_back
            self.sites.append(tuple(chain))
            self.site_ids.append(id(sys._getframe(1).f_locals.get("self")))
        t = 1000.0 + self.reads * self.tick + self.offset
        if self.expire_at is not None and self.reads >= self.expire_at:
            t += self.jump
        return t


def deadline_start_index(clock):
    """Index (0-based) of the clock read that started the solve's deadline timer: the construction read of the timer object
    whose reached_time_limit() is consulted later; if no deadline check was made, the read made by Timer.__init__ called from solve()."""
    ids = [oid for chain, oid in zip(clock.sites, clock.site_ids) if "reached_time_limit" in chain]
    if ids:
        for i, (chain, oid) in enumerate(zip(clock.sites, clock.site_ids)):
            if oid == ids[0] and chain and chain[0] == "__init__":
                return i
    for i, chain in enumerate(clock.sites):
        if len(chain) > 2 and chain[0] == "__init__" and chain[1] == "__init__" and chain[2] == "solve":
            return i
    return None


class ClockPatch:
    def __init__(self, clock):
        self.clock = clock

    def __enter__(self):
        self.orig = ptimer.time

        class _T:
            time = self.clock.time

        ptimer.time = _T
        return self.clock

    def __exit__(self, *a):
        ptimer.time = self.orig


class FaultLinear:
    """Substituted for pygradflow.linear_solver.linear_solver: the k-th factorisation
    (construction) or the k-th solve call raises LinearSolverError."""

    def __init__(self, fail_factor=(), fail_solve=(), fail_trans_solve=()):
        self.fail_factor = set(fail_factor)
        self.fail_solve = set(fail_solve)
        self.fail_trans_solve = set(fail_trans_solve)  # counted over transposed solves only (condition estimator)
        self.n_factor = 0
        self.n_solve = 0
        self.n_trans = 0
        self.fired = []

    def __enter__(self):
        self.orig = pls.linear_solver
        outer = self

        def factory(mat, solver_type, symmetric=False):
            outer.n_factor += 1
            if outer.n_factor in outer.fail_factor:
                outer.fired.append(("factor", outer.n_factor))
                raise LinearSolverError("injected factorisation failure")
            inner = outer.orig(mat, solver_type, symmetric=symmetric)
            return _FaultSolver(inner, outer)

        pls.linear_solver = factory
        return self

    def __exit__(self, *a):
        pls.linear_solver = self.orig


class _FaultSolver:
    def __init__(self, inner, outer):
        self.inner, self.outer = inner, outer

    def solve(self, rhs, trans=False, initial_sol=None):
        o = self.outer
        o.n_solve += 1
        if o.n_solve in o.fail_solve:
            import sys

            f, in_est = sys._getframe(1), False
            while f is not None:
                if f.f_code.co_name == "estimate_rcond":
                    in_est = True
                    break
                f = f.f_back
            o.fired.append(("solve@estimator" if in_est else "solve", o.n_solve))
            raise LinearSolverError("injected solve failure")
        if trans:
            o.n_trans += 1
            if o.n_trans in o.fail_trans_solve:
                o.fired.append(("trans_solve", o.n_trans))
                raise LinearSolverError("injected failure of a transposed solve")
        return self.inner.solve(rhs, trans=trans, initial_sol=initial_sol)

    def __getattr__(self, name):
        return getattr(self.inner, name)


def exc_info(e):
    tb = traceback.extract_tb(e.__traceback__)
    site = None
    for fr in tb:
        if "/pygradflow/" in fr.filename and "/pgfmc/" not in fr.filename:
            site = fr.filename.split("/pygradflow/")[-1] + ":" + fr.name
    msg = str(e)
    deliberate = isinstance(e, Exception) and type(e) is Exception and any(msg.startswith(p) for p in DELIBERATE)
    from pygradflow.deriv_check import DerivError

    if isinstance(e, DerivError):
        deliberate = True
    return {"cls": type(e).__name__, "msg": msg[:200], "site": site, "deliberate": deliberate}


class SolveRecord:
    pass


def run_solve(problem, params, x0, y0=None, solver_cls=RecSolver, clock=None, log_level=None,
              linear_faults=None, pre=None, solver=None, errstate=True):
    """One complete solve on the real code.  Returns SolveRecord with fields
    solver, result (or None), exc (or None), trials, cb, digest."""
    rec = SolveRecord()
    logger = LOGGER
    old_level = logger.level
    if log_level is not None:
        logger.setLevel(log_level)
    if solver is None:
        solver = solver_cls(problem, params)
    if pre is not None:
        pre(solver)
    rec.solver = solver
    rec.result = None
    rec.exc = None
    ntr0 = len(getattr(solver, "trials", []))
    ncb0 = len(getattr(solver, "cb", []))
    ctxs = []
    if clock is not None:
        ctxs.append(ClockPatch(clock))
    if linear_faults is not None:
        ctxs.append(linear_faults)
    try:
        for c in ctxs:
            c.__enter__()
        try:
            import contextlib

            # errstate=False: leave numpy's process-wide error mode alone, so that a solve that changes it can be observed (C10)
            with (np.errstate(all="ignore") if errstate else contextlib.nullcontext()):
                rec.result = solver.solve(None if x0 is None else (x0 if isinstance(x0, np.ndarray) else np.array(x0, dtype=float)),
                                          None if y0 is None else (y0 if isinstance(y0, np.ndarray) else np.array(y0, dtype=float)))
        except Exception as e:  # noqa
            rec.exc = exc_info(e)
            rec.exc_obj = e
    finally:
        for c in reversed(ctxs):
            c.__exit__(None, None, None)
        logger.setLevel(old_level)
    rec.trials = getattr(solver, "trials", [])[ntr0:]
    rec.cb = getattr(solver, "cb", [])[ncb0:]
    rec.digest = digest_record(rec)
    return rec


def digest_record(rec):
    h = hashlib.sha256()
    for t in rec.trials:
        h.update(t.bytes())
    r = rec.result
    if r is not None:
        h.update(r.status.name.encode())
        h.update(np.asarray(r.x).tobytes() + np.asarray(r.y).tobytes() + np.asarray(r.d).tobytes())
        h.update(struct.pack("<qq", r.iterations, r.num_accepted_steps))
    if rec.exc is not None:
        h.update((rec.exc["cls"] + rec.exc["msg"][:40]).encode())
    return h.hexdigest()[:20]


def outcome_of(rec):
    if rec.result is not None:
        return rec.result.status.name
    e = rec.exc
    if e["deliberate"]:
        for p in DELIBERATE:
            if e["msg"].startswith(p):
                return "deliberate:" + p
        return "deliberate:" + e["cls"]
    return "crash:" + e["cls"]


class RecordLinear:
    """Substituted for pygradflow.linear_solver.linear_solver: records the matrix, every
    right-hand side and every returned solution (the seam between step and linear solver)."""

    def __init__(self):
        self.systems = []  # dict(mat=dense, solves=[(rhs, sol, trans)])

    def __enter__(self):
        self.orig = pls.linear_solver
        outer = self

        def factory(mat, solver_type, symmetric=False):
            inner = outer.orig(mat, solver_type, symmetric=symmetric)
            entry = {"mat": mat.toarray(), "solves": [], "type": solver_type.name, "symmetric": symmetric}
            outer.systems.append(entry)
            return _RecSolver(inner, entry)

        pls.linear_solver = factory
        return self

    def __exit__(self, *a):
        pls.linear_solver = self.orig


class _RecSolver:
    def __init__(self, inner, entry):
        self.inner, self.entry = inner, entry

    def solve(self, rhs, trans=False, initial_sol=None):
        sol = self.inner.solve(rhs, trans=trans, initial_sol=initial_sol)
        self.entry["solves"].append((np.array(rhs, copy=True), np.array(sol, copy=True), trans))
        return sol

    def __getattr__(self, name):
        return getattr(self.inner, name)
