"""Shared run grids: spec families, configuration products and the case executor."""
import itertools

import numpy as np

from pgfmc.model import specs as S
from pgfmc.model.oracle import Funcs

from . import run as R


def core_specs():
    return [
        S.mk(2, "qdiag", [("affine", "ranged")], ["boxed", "lower"]),
        S.mk(2, "rosen", [("sphere", "upper")], ["free", "free"], tight=False),
        S.mk(2, "cubic", [("bilinear", "eq0")], ["boxed", "upper"]),
        S.mk(2, "exp", [("affine", "eqoff"), ("sphere", "lower")], ["lower", "free"]),
        S.mk(2, "qfull", [("affine", "lower")], ["fixed", "boxed"]),
        S.mk(2, "lin", [("sphere", "ranged")], ["boxed", "boxed"]),
    ]


def raw(n, obj, rows, lb, ub, x0, tag, y0=None):
    return {"n": n, "obj": obj, "rows": rows, "var_lb": lb, "var_ub": ub, "x0": x0,
            "y0": y0 if y0 is not None else [0.0] * len(rows), "fmt": "coo", "policy": "fresh", "tag": tag}


def adversarial_specs():
    I, N = "inf", "-inf"
    out = []
    # infeasible: x0 + x1 >= 5 inside the box [-0.5, 0.75]^2
    out.append(raw(2, S.objective("qdiag", 2), [{"a": [1.0, 1.0], "b": 0.0, "lb": 5.0, "ub": I}], [-0.5, -0.5], [0.75, 0.75], [0.25, 0.0], "infeasible_box"))
    # infeasible equality with a fixed variable
    out.append(raw(2, S.objective("qin", 2), [{"a": [1.0, 0.0], "b": 0.0, "lb": 2.0, "ub": 2.0}], [0.5, N], [0.5, I], [0.5, 0.0], "infeasible_fixed"))
    # infeasible nonlinear: |x|^2 + 1 = 0
    out.append(raw(2, S.objective("lin", 2), [{"Q": [[2.0, 0.0], [0.0, 2.0]], "a": [0.0, 0.0], "b": 1.0, "lb": 0.0, "ub": 0.0}], [N, N], [I, I], [0.3, -0.7], "infeasible_sphere"))
    # unbounded: linear objective, free variables, no constraints
    out.append(raw(2, S.objective("lin", 2), [], [N, N], [I, I], [0.0, 0.0], "unbounded_free"))
    # unbounded along a half line with one inequality
    out.append(raw(2, S.objective("lin", 2), [{"a": [1.0, 1.0], "b": 0.0, "lb": N, "ub": 1.0}], [N, 0.0], [I, I], [0.0, 0.5], "unbounded_halfspace"))
    # degenerate LICQ: the same row twice
    out.append(raw(2, S.objective("qdiag", 2), [{"a": [1.0, 1.0], "b": 0.0, "lb": 0.5, "ub": 0.5}, {"a": [1.0, 1.0], "b": 0.0, "lb": 0.5, "ub": 0.5}], [N, N], [I, I], [0.3, -0.7], "degenerate_licq"))
    # no constraints, bounds only, nonconvex
    out.append(raw(2, S.objective("indef", 2), [], [-1.0, -1.0], [1.0, 2.0], [0.3, -0.7], "bound_only_indef"))
    # singular Hessian with an equality
    out.append(raw(2, S.objective("singular", 2), [{"a": [1.0, -1.0], "b": 0.0, "lb": 0.0, "ub": 0.0}], [N, N], [I, I], [0.3, -0.7], "singular_hess"))
    # all variables fixed
    out.append(raw(2, S.objective("cubic", 2), [{"a": [1.0, 1.0], "b": 0.0, "lb": N, "ub": 1.0}], [0.5, -0.25], [0.5, -0.25], [0.5, -0.25], "all_fixed"))
    # separable: the violated constraint only involves a variable that is absent from the objective
    out.append(raw(3, {"H": [[2.0, 0.0, 0.0], [0.0, 2.0, 0.0], [0.0, 0.0, 0.0]], "g": [-2.0, 4.0, 0.0]},
                   [{"Q": [[0.0, 0.0, 0.0], [0.0, 0.0, 0.0], [0.0, 0.0, 2.0]], "a": [0.0, 0.0, 1.0], "b": 0.0, "lb": 2.0, "ub": 2.0}],
                   [N, N, N], [I, I, I], [0.0, 0.0, 0.0], "separable_constraint"))
    # symmetric QP started on its (non-binding) equality row: c == 0 and y == 0 exactly along the whole flow
    out.append(raw(2, {"H": [[2.0, 0.0], [0.0, 2.0]], "g": [0.0, 0.0]}, [{"a": [1.0, -1.0], "b": 0.0, "lb": 0.0, "ub": 0.0}], [N, N], [I, I], [1.0, 1.0],
                   "nonbinding_equality_zero_multiplier"))
    # one variable, unconstrained quartic (flat minimum)
    out.append(raw(1, S.objective("quartic", 1), [], [N], [I], [2.0], "quartic_1d"))
    return out


def multi_multiplier_specs():
    """Three/two equality rows whose optimal multipliers have nearly equal magnitude."""
    I, N = "inf", "-inf"
    H = [[1.0, 0.0, 0.0], [0.0, 1.0, 0.0], [0.0, 0.0, 1.0]]
    rows3 = [{"a": [1.0, 0.0, 0.0], "b": 0.0, "lb": 0.6, "ub": 0.6}, {"a": [0.0, 1.0, 0.0], "b": 0.0, "lb": -0.6, "ub": -0.6},
             {"Q": [[0.0, 0.0, 0.0], [0.0, 0.0, 0.0], [0.0, 0.0, 0.2]], "a": [0.0, 0.0, 1.0], "b": 0.0, "lb": 0.63, "ub": 0.63}]
    out = [raw(3, {"H": H, "g": [0.0, 0.0, 0.0]}, rows3, [N, N, N], [I, I, I], [0.0, 0.0, 0.0], "three_equal_multipliers")]
    rows2 = [{"a": [1.0, 1.0], "b": 0.0, "lb": 2.0, "ub": 2.0}, {"a": [1.0, -1.0], "b": 0.0, "lb": N, "ub": -1.0}]
    out.append(raw(2, {"H": [[1.0, 0.0], [0.0, 1.0]], "g": [0.0, 0.0]}, rows2, [N, N], [I, I], [0.0, 0.0], "two_multipliers_eq_ineq"))
    return out


def small_jacobian_specs():
    """Feasible convex QPs whose constraint row has a small coefficient: points with violation between local_infeas_tol and opt_tol
    and tiny J^T c exist and must not be called infeasible."""
    I, N = "inf", "-inf"
    out = []
    for x0 in ([0.5, 0.5 + 1e-6], [0.3, 0.7000004], [2.0, -3.0]):
        out.append(raw(2, {"H": [[2.0, 0.0], [0.0, 1.0]], "g": [-1.0, 0.5]}, [{"a": [0.05, 0.05], "b": -0.05, "lb": 0.0, "ub": 0.0}],
                       [N, N], [I, I], x0, f"small_jacobian|{x0}"))
    return out


def exact_feasibility_specs():
    """The only row becomes EXACTLY satisfied when a variable is clipped onto its bound (internal c == 0.0), after an infeasible phase."""
    I, N = "inf", "-inf"
    out = []
    for x0 in ([-0.5, 0.0], [-0.25, 1.0]):
        out.append(raw(2, S.objective("qdiag", 2), [{"a": [1.0, 0.0], "b": 0.0, "lb": 0.75, "ub": 0.75}], [-0.5, -0.75], [0.75, 1.25], x0, f"exact_feasible_at_bound|{x0}"))
    return out


def outside_start_specs():
    """Starts that violate the variable bounds (allowed input: the solver clips on the first step)."""
    I, N = "inf", "-inf"
    out = []
    # bounded LP-like problem, start far below the box where the objective is already below obj_lower_limit
    out.append(raw(2, {"g": [1.0, 1.0]}, [], [-5.0, -5.0], [5.0, 5.0], [-1e11, 0.0], "outside_start_below_limit"))
    out.append(raw(2, {"g": [1.0, -1.0], "H": [[1e-3, 0.0], [0.0, 1e-3]]}, [{"a": [1.0, 1.0], "b": 0.0, "lb": N, "ub": 1.0}],
                   [-5.0, -5.0], [5.0, 5.0], [-3e10, 1.0], "outside_start_below_limit_cons"))
    # start outside the box at a stationary point of the violation
    out.append(raw(2, S.objective("qdiag", 2), [{"Q": [[2.0, 0.0], [0.0, 2.0]], "a": [0.0, 0.0], "b": 1.0, "lb": 0.0, "ub": 0.0}],
                   [0.5, 0.5], [2.0, 2.0], [0.0, 0.0], "outside_start_stationary_violation"))
    out.append(raw(2, S.objective("qin", 2), [("skip")] if False else [{"a": [1.0, -1.0], "b": 0.0, "lb": -0.5, "ub": 0.25}],
                   [-0.5, -0.75], [0.75, 1.25], [3.0, -3.0], "outside_start_plain"))
    return out


DEFAULT = {"newton": "Simplified", "step_solver": "Symmetric", "linear": "LU", "control": "DistanceRatio",
           "penalty": "DualNorm", "active_set": "Standard"}
AXES = {"newton": R.NEWTONS, "step_solver": R.STEP_SOLVERS, "linear": R.LINEARS, "control": R.CONTROLS,
        "penalty": R.PENALTIES, "active_set": R.ACTIVE_SETS}


def cfg_key(c):
    return "|".join(str(c.get(k, DEFAULT[k])) for k in ("newton", "step_solver", "linear", "control", "penalty", "active_set"))


def configs_star():
    out, seen = [], set()
    for ax, vals in AXES.items():
        for v in vals:
            c = dict(DEFAULT); c[ax] = v
            if R.valid_combo(c) and cfg_key(c) not in seen:
                seen.add(cfg_key(c)); out.append(c)
    return out


def configs_pairs():
    out, seen = [], set()
    for c in configs_star():
        seen.add(cfg_key(c)); out.append(c)
    for a, b in itertools.combinations(AXES, 2):
        for va in AXES[a]:
            for vb in AXES[b]:
                c = dict(DEFAULT); c[a] = va; c[b] = vb
                if R.valid_combo(c) and cfg_key(c) not in seen:
                    seen.add(cfg_key(c)); out.append(c)
    return out


def configs_full():
    out = []
    for vals in itertools.product(*[AXES[k] for k in AXES]):
        c = dict(zip(AXES, vals))
        if R.valid_combo(c):
            out.append(c)
    return out


def _tau_rule(iterate, lamb, rho):
    """A user-supplied active-set rule (Params.active_set_method)."""
    return 0.5 / lamb


PARAM_VARIANTS = [
    {"opt_tol": 1e-3}, {"opt_tol": 1e-9}, {"active_tol": 1e-4}, {"active_tol": 1e-12}, {"local_infeas_tol": 1e-4},
    {"newton_tol": 1e-5}, {"newton_tol": 1e-11}, {"theta_max": 0.5, "theta_ref": 0.25}, {"theta_max": 0.99, "theta_ref": 0.9},
    {"K_P": 0.0, "K_I": 0.0}, {"K_P": 1.0, "K_I": 0.1}, {"lamb_inc": 4.0, "lamb_red": 0.25}, {"lamb_min": 0.5}, {"lamb_init": 1e-3}, {"lamb_init": 100.0},
    {"validate_input": False}, {"active_set_method": _tau_rule},
    {"lamb_inc": 1.25}, {"lamb_red": 1.0}, {"local_infeas_tol": 1e-12}, {"opt_tol": 1e-10, "active_tol": 1e-8}, {"active_tol": 0.0},
]


def variant_key(v):
    return "|".join(f"{k}={getattr(val, '__name__', val)}" for k, val in sorted(v.items()))


def slice_of(lst, seed, k):
    """Slice `seed mod k` of a table (the quick tier adds one slice of the thorough table)."""
    s = seed % k
    return [x for i, x in enumerate(lst) if i % k == s]


def scalings_of(spec, which=(0, 1, 3, 4, 5)):
    n, m = spec["n"], len(spec["rows"])
    at = [0.625, -1.25, 0.75][:n]
    at = S.project(at, spec["var_lb"], spec["var_ub"])
    allsc = S.scalings(n, m, at)
    return [allsc[i] for i in which]


def with_variant(case):
    """cfg["pv"] = index into PARAM_VARIANTS (kept as an index so that cases stay JSON-serialisable)."""
    cfg = case.get("cfg", {})
    if "pv" not in cfg:
        return case
    c = dict(cfg)
    vi = c.pop("pv")
    p = dict(c.get("params") or {})
    p.update(PARAM_VARIANTS[vi])
    c["params"] = p
    out = dict(case)
    out["cfg"] = c
    return out


class Ctx:
    pass


def execute(case, record=False, snapshot=False, clock=None, log_level=None, linear_faults=None, problem_wrap=None,
            solver_cls=R.RecSolver, pre=None):
    """Run one case = {"spec", "cfg", "sc"} on the real code."""
    from .problems import RecordingProblem, UserProblem

    spec, cfg, sc = case["spec"], case.get("cfg", {}), case.get("sc")
    ctx = Ctx()
    ctx.F = Funcs(spec)
    user = UserProblem(spec)
    prob = user
    ctx.user = user
    if problem_wrap is not None:
        prob = problem_wrap(prob)
    ctx.wrapped = prob
    ctx.recprob = None
    if record:
        prob = RecordingProblem(prob, snapshot=snapshot)
        ctx.recprob = prob
    try:
        params = R.make_params(cfg, sc)
        ctx.params = params
        solver = solver_cls(prob, params)
    except Exception as e:
        ctx.setup_error = e
        ctx.rec = None
        return ctx
    ctx.setup_error = None
    if ctx.recprob is not None:
        ctx.setup_calls = len(ctx.recprob.calls)
    ctx.weights = R.weights_of(solver)
    ctx.rec = R.run_solve(prob, params, spec["x0"], spec.get("y0"), clock=clock, log_level=log_level,
                          linear_faults=linear_faults, solver=solver, pre=pre)
    return ctx
