"""Oracles evaluated on the record of one complete solve (see run.run_solve)."""
import numpy as np

from pgfmc.model import oracle as O

STATUSES = {"Optimal", "IterationLimit", "TimeLimit", "Unbounded", "LocallyInfeasible"}


def reftrans(F, weights):
    if weights is None:
        return O.RefTrans(F)
    return O.RefTrans(F, weights["vw"], weights["cw"], weights["ow"])


def V(sig, msg, **detail):
    return {"sig": sig, "msg": msg, "detail": detail}


# ---------------------------------------------------------------- C01
def mon_c01(rec, F, weights, params):
    r = rec.result
    if r is None or r.status.name != "Optimal":
        return []
    w = weights or {}
    shp = (np.shape(r.x), np.shape(r.y), np.shape(r.d))
    if shp != ((F.n,), (F.m,), (F.n,)):
        return [V("C01|result_shape", f"Optimal result with x, y, d of shapes {shp} for a problem with {F.n} variables and {F.m} constraint rows")]
    comp = O.kkt_complaints(F, r.x, r.y, r.d, params.opt_tol, params.active_tol, w.get("vw"), w.get("cw"), w.get("ow", 0))
    out = []
    for c in comp[:3]:
        kind = c.split(":")[0].split(" ")[0].split("[")[0]
        out.append(V(f"C01|{kind}", f"Optimal result violates KKT: {c}; x={np.asarray(r.x).tolist()} y={np.asarray(r.y).tolist()} d={np.asarray(r.d).tolist()}"))
    return out


# ---------------------------------------------------------------- C02 (real runs)
def mon_c02(rec, F, weights, params):
    r = rec.result
    if r is None:
        return []
    out = []
    st = r.status.name
    lim = params.iteration_limit
    if lim is not None and r.iterations > lim:
        out.append(V("C02|iterations_exceed_limit", f"iterations {r.iterations} > limit {lim}"))
    if (st == "IterationLimit") != (lim is not None and r.iterations == lim) and st != "TimeLimit":
        # IterationLimit exactly when the count equals the limit (the limit test comes first)
        out.append(V("C02|iteration_limit_mismatch", f"status {st} with iterations {r.iterations} and limit {lim}"))
    if st == "TimeLimit" and not np.isfinite(params.time_limit):
        out.append(V("C02|time_limit_without_deadline", "TimeLimit returned with infinite time limit"))
    fin = getattr(rec.solver, "final_iterate", None)
    if st in ("LocallyInfeasible", "Unbounded") and fin is not None:
        T = reftrans(F, weights)
        R = O.RefPoint(T, fin.x, fin.y, active_tol=params.active_tol)
        if st == "LocallyInfeasible":
            if not (R.cons_violation > params.opt_tol * (1 - 1e-9)):
                out.append(V("C02|infeasible_but_feasible", f"LocallyInfeasible at a point with violation {R.cons_violation:.3e} <= tol"))
            # true mathematical stationarity over the box: fixed components are free
            g = R.J.T.dot(R.c)
            g = g.copy()
            g[R.at_lower] = np.minimum(g[R.at_lower], 0.0)
            g[R.at_upper] = np.maximum(g[R.at_upper], 0.0)
            g[R.at_both] = 0.0
            stn = float(np.max(np.abs(g), initial=0.0))
            if stn > params.local_infeas_tol * (1 + 1e-6) + 1e-14:
                out.append(V("C02|infeasible_not_stationary", f"LocallyInfeasible at a point whose projected violation gradient is {stn:.3e} > {params.local_infeas_tol}"))
            # user space: some row really violated beyond tolerance
            w = weights or {"vw": [0] * F.n, "cw": [0] * F.m, "ow": 0}
            c = F.c(r.x)
            dist = np.maximum(np.maximum(F.cons_lb - c, c - F.cons_ub), 0.0)
            sc = np.ldexp(dist, np.array(w["cw"], dtype=int)) if F.m else dist
            # the dropped slack can hide at most the distance of c to [l,u]; internal violation = |c_s - s| >= that distance is not
            # implied, so only demand consistency in the direction that is implied: if c is feasible in user space the internal
            # violation must come from |c_s - s| with s in [l,u], hence c_s itself lies within tol..: no demand. (kept as evidence only)
            _ = sc
        else:
            if not (R.cons_violation <= params.opt_tol * (1 + 1e-9) and R.bound_violation <= params.opt_tol):
                out.append(V("C02|unbounded_infeasible", f"Unbounded at an infeasible point (violation {R.cons_violation:.3e})"))
            if not (R.f <= params.obj_lower_limit):
                out.append(V("C02|unbounded_above_limit", f"Unbounded with scaled objective {R.f!r} > limit {params.obj_lower_limit}"))
    return out


# ---------------------------------------------------------------- C05
EXEMPT = ("deriv_check.py:", "scale.py:create_scaling")


def mon_c05(rec, recprob, F, params):
    out = []
    lb, ub = F.var_lb, F.var_ub
    seen = set()
    # the derivative check is exempt only when the user opted in
    opted_in = getattr(params.deriv_check, "value", 0) != 0
    exempt = EXEMPT if opted_in else tuple(e for e in EXEMPT if not e.startswith("deriv_check"))
    for kind, x, chain in recprob.calls:
        if (x < lb).any() or (x > ub).any():
            if chain and any(any(c.startswith(e) or e in c for e in exempt) for c in chain):
                continue
            site = next((c for c in (chain or []) if not c.startswith(("eval.py", "iterate.py", "scale.py:", "cons_problem.py", "implicit_func.py"))), "?")
            sig = f"C05|eval_out_of_box|{site}"
            if sig not in seen:
                seen.add(sig)
                out.append(V(sig, f"{kind} evaluated at {x.tolist()} outside [{lb.tolist()},{ub.tolist()}]; call chain {chain[:6]}"))
    P = rec.solver.problem
    for (it, nit, acc, rho) in rec.cb:
        for name, z in (("iterate", it), ("next_iterate", nit)):
            if (z.x < P.var_lb).any() or (z.x > P.var_ub).any():
                sig = f"C05|callback_{name}_out_of_box"
                if sig not in seen:
                    seen.add(sig)
                    out.append(V(sig, f"callback {name} x={z.x.tolist()} outside internal box"))
    if rec.result is not None:
        x = np.asarray(rec.result.x)
        if (x < lb).any() or (x > ub).any():
            out.append(V("C05|result_out_of_box", f"result.x={x.tolist()} outside bounds"))
    return out


# ---------------------------------------------------------------- C06
def mon_c06(rec):
    out = []
    if rec.result is not None:
        r = rec.result
        if r.status.name not in STATUSES:
            out.append(V("C06|unknown_status", str(r.status)))
        for name in ("x", "y", "d"):
            v = np.asarray(getattr(r, name), dtype=float)
            if not np.isfinite(v).all():
                out.append(V(f"C06|nonfinite_{name}", f"result.{name}={v.tolist()} (status {r.status.name})"))
    else:
        e = rec.exc
        if not e["deliberate"]:
            out.append(V(f"C06|crash|{e['cls']}|{e['site']}", f"solve() died with {e['cls']}: {e['msg']} in {e['site']}"))
    return out


# ---------------------------------------------------------------- C12 (trace conformance of a real run)
def same(a, b):
    return a is b or (np.array_equal(a.x, b.x) and np.array_equal(a.y, b.y))


def mon_c12(rec, F, weights, params, x0, y0, filter_policy):
    r = rec.result
    if r is None:
        return []
    out = []
    tr, cb = rec.trials, rec.cb
    fin = rec.solver.final_iterate
    T = reftrans(F, weights)
    if r.iterations != len(cb) or r.iterations != len(tr):
        out.append(V("C12|iterations_vs_callbacks", f"iterations={r.iterations} callbacks={len(cb)} trials={len(tr)}"))
        return out
    # the first announced iterate is the transformed start
    rx, ry = T.transform_sol(np.asarray(x0, dtype=float), np.asarray(y0 if y0 is not None else np.zeros(F.m), dtype=float))
    first = tr[0].it_in if tr else fin
    rx, ry = rx.astype(params.dtype), ry.astype(params.dtype)  # working precision of the solve
    if not (np.array_equal(first.x, rx) and np.array_equal(first.y, ry)):
        out.append(V("C12|first_iterate", f"first iterate {first.x.tolist()},{first.y.tolist()} != transformed start {rx.tolist()},{ry.tolist()}"))
    changes = 0
    cur = first
    path_cols = [np.concatenate([first.x, first.y])]
    times = [0.0]
    for k, t in enumerate(tr):
        if not same(cb[k][0], t.it_in) or not same(cb[k][1], t.it_out) or cb[k][2] != t.accepted:
            out.append(V("C12|callback_mismatch", f"callback {k} does not announce the computed step"))
        if not same(t.it_in, cur):
            out.append(V("C12|chain_broken", f"step {k} starts from {t.it_in.x.tolist()} but the last accepted point is {cur.x.tolist()}"))
            cur = t.it_in
        nxt = tr[k + 1].it_in if k + 1 < len(tr) else fin
        moved = nxt is not t.it_in and not (np.array_equal(nxt.x, t.it_in.x) and np.array_equal(nxt.y, t.it_in.y))
        took_out = nxt is t.it_out
        if took_out and not moved and t.it_out is not t.it_in:
            # accepted step of zero length: counts as accepted
            moved = True
        if took_out and t.it_out is not t.it_in:
            if not t.accepted:
                out.append(V("C12|rejected_step_taken", f"step {k} was not accepted by the controller but its result became the iterate"))
            changes += 1
            cur = t.it_out
            path_cols.append(np.concatenate([t.it_out.x, t.it_out.y]))
            times.append(times[-1] + t.dt)
        else:
            if moved:
                out.append(V("C12|iterate_changed_to_unknown", f"after step {k} the iterate is neither the old nor the computed point"))
            if t.accepted and not filter_policy and t.it_out is not t.it_in:
                out.append(V("C12|accepted_step_dropped", f"step {k} accepted by the controller (no vetoing policy) but not taken"))
    if r.num_accepted_steps != changes:
        out.append(V("C12|accepted_count", f"num_accepted_steps={r.num_accepted_steps} but the iterate changed {changes} times"))
    ex, ey, ed = T.restore_sol(cur.x, cur.y, np.zeros(T.n))
    if not (np.array_equal(np.asarray(r.x), ex) and np.array_equal(np.asarray(r.y), ey)):
        out.append(V("C12|final_not_last_accepted", f"result.x={np.asarray(r.x).tolist()} is not the last accepted point {ex.tolist()}"))
    if not (r.dist_factor >= 1.0 - 1e-12):
        out.append(V("C12|dist_factor", f"dist_factor={r.dist_factor!r} < 1"))
    if params.collect_path:
        path, mt = r.path, r.model_times
        if path is None or mt is None:
            out.append(V("C12|path_missing", "collect_path set but no path"))
        else:
            want = np.array(path_cols).T
            if path.shape != want.shape or not np.array_equal(path, want):
                out.append(V("C12|path_columns", f"path has shape {path.shape}, expected {want.shape} (start + one column per accepted step) or differs in value"))
            wt = np.array(times)
            if mt.shape != wt.shape or not np.allclose(mt, wt, rtol=1e-12, atol=0.0):
                k = next((i for i in range(min(len(mt), len(wt))) if not np.isclose(mt[i], wt[i], rtol=1e-12, atol=0)), -1)
                out.append(V("C12|model_times", f"model_times differ from the accumulated step sizes used (first at {k}: {mt[k] if k >= 0 else None!r} vs {wt[k] if k >= 0 else None!r})"))
    return out


# ---------------------------------------------------------------- C15
def mon_c15(rec, F, weights, params, control, fixed_check=False):
    out = []
    tr = rec.trials
    T = None
    P = rec.solver.problem
    seen = set()

    def add(v):
        if v["sig"] not in seen:
            seen.add(v["sig"])
            out.append(v)

    for k, t in enumerate(tr):
        lam_used = 1.0 / t.dt
        if lam_used >= params.lamb_max:
            add(V("C15|trial_beyond_lamb_max", f"trial {k} computed with 1/dt={lam_used!r} >= lamb_max={params.lamb_max}"))
        if k + 1 < len(tr):
            n = tr[k + 1]
            if n.dt != 1.0 / t.lamb:
                add(V("C15|dt_not_carried", f"trial {k + 1} uses dt={n.dt!r} but previous returned lambda={t.lamb!r}"))
        if not t.accepted:
            if not (t.lamb > lam_used):
                add(V("C15|rejected_no_shrink", f"trial {k} rejected/failed but next lambda {t.lamb!r} <= {lam_used!r}"))
            nxt = tr[k + 1].it_in if k + 1 < len(tr) else rec.solver.final_iterate
            if nxt is not None and rec.result is not None or k + 1 < len(tr):
                if nxt is not None and not same(nxt, t.it_in):
                    add(V("C15|rejected_moved", f"trial {k} rejected/failed but the iterate changed"))
        else:
            z = t.it_out
            if (z.x < P.var_lb).any() or (z.x > P.var_ub).any():
                add(V("C15|accepted_out_of_box", f"accepted point {z.x.tolist()} leaves the box"))
            if control == "Fixed" and fixed_check and t.it_out is not t.it_in and np.dtype(params.dtype) == np.dtype(np.float64):
                if T is None:
                    T = reftrans(F, weights)
                R0 = O.RefPoint(T, t.it_in.x, t.it_in.y)
                p0 = O.implicit_p(T, (t.it_in.x, t.it_in.y), R0, t.rho, t.dt)
                margin = np.minimum(np.abs(p0 - (T.var_lb - 1e-8)), np.abs(p0 - (T.var_ub + 1e-8)))
                if (margin > 1e-9 * max(1.0, float(np.max(np.abs(p0))))).all():
                    A0 = O.implicit_active(T, p0)
                    Jm = O.implicit_jac(T, R0, t.rho, t.dt, A0)
                    cond = np.linalg.cond(Jm)
                    if np.isfinite(cond) and cond < 1e6:
                        with np.errstate(all="ignore"):
                            s0 = np.linalg.solve(Jm, O.implicit_value(T, (t.it_in.x, t.it_in.y), R0, t.rho, t.dt, A0))
                        xn = np.clip(t.it_in.x - s0[: T.n], T.var_lb, T.var_ub)
                        yn = t.it_in.y - s0[T.n:]
                        err = max(float(np.max(np.abs(z.x - xn))), float(np.max(np.abs(z.y - yn), initial=0.0)))
                        if err > 1e-9 * cond * max(1.0, float(np.max(np.abs(s0)))):
                            add(V("C15|fixed_step_not_for_this_dt", f"trial {k}: with fixed control the step is not the Newton step of the implicit-Euler "
                                  f"equation for the step size dt={t.dt!r} the loop passed (difference {err:.3e})"))
            if control == "Exact" and t.it_out is not t.it_in:
                if T is None:
                    T = reftrans(F, weights)
                R = O.RefPoint(T, z.x, z.y)
                p = O.implicit_p(T, (t.it_in.x, t.it_in.y), R, t.rho, t.dt)
                A = O.implicit_active(T, p)
                with np.errstate(all="ignore"):
                    res = float(np.linalg.norm(O.implicit_value(T, (t.it_in.x, t.it_in.y), R, t.rho, t.dt, A)))
                single = np.dtype(params.dtype) == np.dtype(np.float32)
                # in single precision the code's own residual (computed in float32) is what is compared with newton_tol: allow its rounding
                slack = (4.0 * float(np.finfo(np.float32).eps) if single else 1e-13) * max(1.0, float(np.max(np.abs(p))), float(np.max(np.abs(z.y), initial=0.0)))
                if not (res <= params.newton_tol * (1 + 1e-6) + slack):
                    add(V("C15|exact_residual", f"exact control accepted a point with implicit-Euler residual {res:.3e} > newton_tol {params.newton_tol}"))
    return out


# ---------------------------------------------------------------- C16
def mon_c16(rec, params, penalty):
    out = []
    tr = rec.trials
    if not tr:
        return out
    rho0 = params.rho
    seen = set()

    def add(v):
        if v["sig"] not in seen:
            seen.add(v["sig"])
            out.append(v)

    ymax = 0.0  # over accepted iterates so far (the start is the first accepted iterate)
    cur = tr[0].it_in
    ymax = float(np.max(np.abs(cur.y), initial=0.0))
    prev = None
    for k, t in enumerate(tr):
        if not (t.rho > 0.0) or not np.isfinite(t.rho) and penalty in ("Constant", "DualNorm"):
            add(V("C16|nonpositive", f"trial {k} uses rho={t.rho!r}"))
        if prev is not None and t.rho < prev:
            add(V("C16|decreased", f"rho decreased from {prev!r} to {t.rho!r} at trial {k}"))
        if penalty == "Constant" and t.rho != rho0:
            add(V("C16|constant_changed", f"constant policy but trial {k} uses rho={t.rho!r} != {rho0!r}"))
        if penalty == "DualNorm":
            if t.rho > max(rho0, ymax) * (1 + 1e-12):
                add(V("C16|dualnorm_exceeds", f"trial {k}: rho={t.rho!r} > max(rho0={rho0}, max|y|={ymax!r})"))
            if prev is not None and t.rho > 10.0 * prev * (1 + 1e-12):
                add(V("C16|dualnorm_jump", f"trial {k}: rho jumped from {prev!r} to {t.rho!r} (> x10)"))
        prev = t.rho
        nxt = tr[k + 1].it_in if k + 1 < len(tr) else rec.solver.final_iterate
        if nxt is not None and nxt is t.it_out and t.it_out is not t.it_in:
            ymax = max(ymax, float(np.max(np.abs(t.it_out.y), initial=0.0)))
    if rec.trials and prev is not None and k == 0:
        pass
    if tr[0].rho != rho0 and penalty in ("Constant", "DualNorm", "ObjectiveFilter", "LagrangianFilter", "ParetoDecrease", "DualEquilibration"):
        add(V("C16|initial", f"first trial uses rho={tr[0].rho!r}, configured {rho0!r}"))
    return out
