"""Scripted-environment exploration of the real Solver.solve loop (engine E3/E4).

The real loop runs on a one-variable toy problem; the step controller, the penalty policy
and the clock are replaced by scripted environments, so that every sequence of environment
answers up to a depth / deviation bound can be enumerated.  Each execution is compared with
the reference LoopModel driven by the same answers.
"""
import itertools
import math

import numpy as np

import pygradflow.solver as psolver
from pygradflow.eval import EvalError
from pygradflow.iterate import Iterate
from pygradflow.penalty import PenaltyResult, PenaltyStrategy
from pygradflow.step.step_control import StepController, StepControlResult
from pygradflow.step.step_solver_error import StepSolverError

from pgfmc.model import oracle as O
from pgfmc.model.loopmodel import LoopModel

from . import run as R
from .problems import UserProblem

# f = x, c = x^3 - 3x^2 + 1 = 0, -1 <= x <= 2.5
TOY = {"n": 1, "obj": {"g": [1.0]}, "rows": [{"Q": [[-6.0]], "a": [0.0], "b": 1.0, "cub": [1.0], "lb": 0.0, "ub": 0.0}],
       "var_lb": [-1.0], "var_ub": [2.5], "x0": [0.0], "y0": [0.0], "fmt": "coo", "policy": "fresh", "tag": "toy"}
OBJ_LIMIT = -0.5
BAD_X = 1.25  # evaluation of the objective fails exactly here


def roots():
    r = sorted(np.roots([1.0, -3.0, 0.0, 1.0]).real)
    out = []
    for x in r:  # polish
        for _ in range(4):
            x = x - (x ** 3 - 3 * x ** 2 + 1) / (3 * x ** 2 - 6 * x)
        out.append(float(x))
    return out


def pool_points():
    r = roots()
    xo = r[1]
    yo = -1.0 / (3 * xo ** 2 - 6 * xo)
    return [
        ("N1", xo, 0.0),          # feasible, not optimal, objective above the limit
        ("N2", -1.0, 0.0),        # below the limit but infeasible; at the lower bound, NOT stationary there
        ("N3", 1.0, 0.5),         # generic infeasible
        ("N4", 1.5, -1.0),        # generic infeasible
        ("T_opt", xo, yo),        # KKT point
        ("T_inf0", 0.0, 0.3),     # interior stationary point of the violation, infeasible
        ("T_inf2", 2.0, 0.0),     # interior stationary point of the violation, infeasible
        ("T_infU", 2.5, 0.0),     # infeasible, stationary only because of the upper bound
        ("T_unb", r[0], 0.0),     # feasible, objective below the limit, not optimal
        ("BAD", BAD_X, 0.0),      # cannot be evaluated
    ]


class ToyProblem(UserProblem):
    def obj(self, x):
        if x[0] == BAD_X:
            return float("nan")
        return super().obj(x)


class Env:
    """Everything shared by the executions of one worker."""

    def __init__(self):
        self.problem = ToyProblem(TOY)
        self.F = O.Funcs(TOY)
        self.T = O.RefTrans(self.F)
        self.names = [p[0] for p in pool_points()]
        self.pts = {p[0]: (np.array([p[1]]), np.array([p[2]])) for p in pool_points()}
        self.cls = {}
        for name, (x, y) in self.pts.items():
            if name == "BAD":
                self.cls[name] = None
                continue
            Rp = O.RefPoint(self.T, x, y)
            c = None
            if Rp.total_res <= 1e-6:
                c = "Optimal"
            elif Rp.cons_violation > 1e-6 and Rp.infeas_stationarity() <= 1e-8:
                c = "LocallyInfeasible"
            elif Rp.f <= OBJ_LIMIT and Rp.cons_violation <= 1e-6 and Rp.bound_violation <= 1e-6:
                c = "Unbounded"
            self.cls[name] = c

    def classify(self, name):
        return self.cls[name]


_ENV = None


def env():
    global _ENV
    if _ENV is None:
        _ENV = Env()
    return _ENV


class ScriptedController(StepController):
    def __init__(self, problem, params, script, iterates, log):
        super().__init__(problem, params)
        self.script, self.iterates, self.log = script, iterates, log
        self.k = 0

    def step(self, iterate, rho, dt, display, timer):
        ans = self.script[self.k] if self.k < len(self.script) else ("acc", "T_opt", 1.0)
        self.k += 1
        self.log.append((iterate, rho, dt))
        lamb = 1.0 / dt
        kind = ans[0]
        if kind == "acc":
            return StepControlResult(self.iterates(ans[1]), ans[2] * lamb, None, None, True)
        if kind == "rej":
            return StepControlResult(self.iterates(ans[1]), ans[2] * lamb, None, None, False)
        if kind == "sse":
            raise StepSolverError("scripted")
        if kind == "eval":
            raise EvalError("scripted", iterate.x)
        if kind == "acc_bad":
            return StepControlResult(self.iterates("BAD"), 0.5 * lamb, None, None, True)
        if kind == "lammax":
            return StepControlResult(self.iterates(ans[1]), self.params.lamb_max * ans[2], None, None, True)
        raise ValueError(kind)


class ScriptedPenalty(PenaltyStrategy):
    def __init__(self, problem, params, script):
        super().__init__(problem, params)
        self.script = script
        self.k = 0
        self.rho = params.rho

    def initial(self, iterate):
        return self.rho

    def update(self, prev_iterate, next_iterate):
        ans = self.script[self.k] if self.k < len(self.script) else "same"
        self.k += 1
        if ans == "same":
            return PenaltyResult(self.rho, True)
        self.rho = self.rho * 10.0
        return PenaltyResult(self.rho, ans == "x10")


def execute(case):
    """case: {start, ctl: [answers], pen: [answers], limit, expire_at, lamb_init, lamb_max, rho}
    Runs the real loop and the model; returns (discrepancies, model, info)."""
    E = env()
    start = case.get("start", "N1")
    ctl = [tuple(a) for a in case["ctl"]]
    pen = list(case.get("pen", []))
    limit = case.get("limit")
    lamb_max = case.get("lamb_max", 64.0)
    params = R.make_params({"iteration_limit": limit, "params": {
        "lamb_init": case.get("lamb_init", 1.0), "lamb_max": lamb_max, "rho": case.get("rho", 1e-2),
        "obj_lower_limit": OBJ_LIMIT, "collect_path": True, "time_limit": 1.0, "lamb_min": case.get("lamb_min", 1e-12)}})
    solver = R.RecSolver(E.problem, params)
    P, ev = solver.problem, solver.transform.evaluator
    made = {}

    def iterates(name):
        x, y = E.pts[name]
        it = Iterate(P, params, x, y, ev)
        made[id(it)] = name
        return it

    log = []
    clock = R.VirtualClock(expire_at=case.get("expire_at"), tick=1e-6, jump=1e9)
    clock.record_sites = True
    orig_ctl, orig_pen = psolver.step_controller, psolver.penalty_strategy
    psolver.step_controller = lambda problem, prm: ScriptedController(problem, prm, ctl, iterates, log)
    psolver.penalty_strategy = lambda problem, prm: ScriptedPenalty(problem, prm, pen)
    try:
        x0, y0 = E.pts[start]
        rec = R.run_solve(E.problem, params, x0, y0, clock=clock, solver=solver)
    finally:
        psolver.step_controller, psolver.penalty_strategy = orig_ctl, orig_pen

    # environment answers of the clock, reconstructed from its log
    reads = clock.sites
    values = [1000.0 + (i + 1) * clock.tick + (clock.jump if clock.expire_at is not None and (i + 1) >= clock.expire_at else 0.0)
              for i in range(len(reads))]
    i_start = R.deadline_start_index(clock)
    t_start = values[i_start] if i_start is not None else None
    expired = []
    for i, (chain, v) in enumerate(zip(reads, values)):
        if "reached_time_limit" in chain:
            expired.append((v - t_start) >= 1.0 if t_start is not None and i > i_start else False)

    # run the model with the same answers
    M = LoopModel(start, case.get("lamb_init", 1.0), case.get("rho", 1e-2), lamb_max, limit, E.classify)
    k = 0
    pk = 0
    ek = 0
    while True:
        exp_k = expired[ek] if ek < len(expired) else False
        ek += 1
        c = ctl[k] if k < len(ctl) else ("acc", "T_opt", 1.0)
        # penalty answers are consumed only when the controller accepted
        pa = pen[pk] if pk < len(pen) else "same"
        before_cb = len(M.callbacks)
        cont = M.step(exp_k, c, pa)
        if len(M.trials) > k:
            k = len(M.trials)
        if len(M.callbacks) > before_cb and M.callbacks[-1][2]:
            pk += 1
        if not cont:
            break
        if M.it > 50:
            break

    D = []  # (aspect, message)

    def name_of(it):
        if id(it) in made:
            return made[id(it)]
        for nm, (x, y) in E.pts.items():
            if np.array_equal(it.x, x) and np.array_equal(it.y, y):
                return nm
        return f"?{it.x.tolist()}"

    r = rec.result
    if M.error is not None:
        if rec.exc is None or not rec.exc["msg"].startswith(M.error):
            D.append(("abort", f"model expects the deliberate error '{M.error}', implementation gave {rec.exc or r.status.name}"))
    elif rec.exc is not None:
        D.append(("crash", f"implementation raised {rec.exc['cls']}: {rec.exc['msg']} ({rec.exc['site']}), model expects status {M.status}"))
    else:
        if r.status.name != M.status:
            D.append(("status", f"status {r.status.name}, model {M.status} (iterations {r.iterations}, limit {limit}, point {M.cur})"))
        if r.iterations != M.it:
            D.append(("iterations", f"iterations {r.iterations}, model {M.it}"))
        if limit is not None and r.iterations > limit:
            D.append(("limit_exceeded", f"iterations {r.iterations} > limit {limit}"))
        if r.num_accepted_steps != M.accepted:
            D.append(("accepted", f"num_accepted_steps {r.num_accepted_steps}, model {M.accepted}"))
        ex, ey = E.pts[M.cur]
        if not (np.array_equal(np.asarray(r.x), ex) and np.array_equal(np.asarray(r.y), ey)):
            D.append(("final_point", f"result ({np.asarray(r.x).tolist()},{np.asarray(r.y).tolist()}) is not the model's current point {M.cur}"))
        if r.status.name == "TimeLimit" and not any(expired):
            D.append(("time_limit_early", "TimeLimit although no deadline check saw the clock past the deadline"))
        path, mt = r.path, r.model_times
        want = np.array([np.concatenate(E.pts[p]) for p in M.path]).T
        if path is None or path.shape != want.shape or not np.array_equal(path, want):
            D.append(("path", f"path columns {None if path is None else path.shape} differ from the model's accepted points {M.path}"))
        if mt is None or len(mt) != len(M.times) or not np.allclose(mt, np.array(M.times), rtol=1e-12, atol=0):
            D.append(("model_times", f"model_times {None if mt is None else mt.tolist()} vs accumulated step sizes {M.times}"))
        if not (r.dist_factor >= 1 - 1e-12):
            D.append(("dist_factor", f"{r.dist_factor!r}"))
    # per-trial inputs seen by the controller
    if rec.exc is None or M.error is not None:
        if len(log) != len(M.trials):
            D.append(("trials", f"controller was called {len(log)} times, model {len(M.trials)}"))
        else:
            for i, ((it, rho, dt), (pn, mrho, mdt)) in enumerate(zip(log, M.trials)):
                if name_of(it) != pn:
                    D.append(("trial_start", f"trial {i} starts from {name_of(it)}, model {pn}"))
                    break
                if rho != mrho:
                    D.append(("trial_rho", f"trial {i} uses rho {rho!r}, model {mrho!r}"))
                    break
                if dt != mdt:
                    D.append(("trial_dt", f"trial {i} uses dt {dt!r}, model {mdt!r}"))
                    break
                if 1.0 / dt >= lamb_max:
                    D.append(("trial_beyond_lamb_max", f"trial {i} computed with 1/dt={1.0 / dt!r} >= {lamb_max}"))
        cbs = [(name_of(a), name_of(b), acc) for (a, b, acc, _) in rec.cb]
        if cbs != [(a, b, acc) for (a, b, acc) in M.callbacks]:
            D.append(("callbacks", f"callback sequence {cbs} differs from the model's {M.callbacks}"))
    info = {"trace": M.trace, "reads": len(reads), "status": M.status or ("error:" + str(M.error)), "it": M.it}
    return D, M, info


# ------------------------------------------------------------------ answer alphabets
def default_route(depth):
    route = ["N3", "N4", "N2", "N3", "N4", "N1", "N3", "N4"]
    ans = [("acc", route[i % len(route)], 1.0) for i in range(depth - 1)]
    ans.append(("acc", "T_opt", 1.0))
    return ans


def controller_alternatives():
    E = env()
    alts = []
    for name in E.names:
        if name == "BAD":
            continue
        for f in (0.5, 1.0, 2.0):
            alts.append(("acc", name, f))
    for name in ("N3", "T_opt"):
        alts.append(("rej", name, 2.0))
        alts.append(("rej", name, 4.0))
    alts += [("sse",), ("eval",), ("acc_bad",), ("lammax", "N3", 1.0), ("lammax", "N3", 2.0)]
    return alts


PEN_ALTS = ["x10", "veto"]


def scripts(depth, max_dev):
    """All controller scripts with at most max_dev deviations from the default route."""
    base = default_route(depth)
    alts = controller_alternatives()
    out = [(tuple(), base)]
    for k in range(1, max_dev + 1):
        for pos in itertools.combinations(range(depth), k):
            for choice in itertools.product(range(len(alts)), repeat=k):
                s = list(base)
                ok = True
                for p, c in zip(pos, choice):
                    if alts[c] == base[p]:
                        ok = False
                        break
                    s[p] = alts[c]
                if ok:
                    out.append((tuple(zip(pos, choice)), s))
    return out
