"""Finite, explicitly tabulated problem-spec alphabets (no pygradflow import)."""
import itertools
import math

import numpy as np

INF = "inf"
NINF = "-inf"

VAR_KINDS = ["free", "lower", "upper", "boxed", "fixed"]
ROW_KINDS = ["eq0", "eqoff", "lower", "upper", "ranged"]
ROW_FNS = ["affine", "sphere", "bilinear"]


def var_bounds(kinds, tight=False):
    """Per-component bounds.  `tight` moves the bounds so that they cut off the
    unconstrained minimisers used by the objective catalogue (active bounds)."""
    lb, ub = [], []
    for j, k in enumerate(kinds):
        lo, hi = (-1.0, 1.25) if not tight else (-0.5, 0.75)
        if j % 2 == 1:
            lo, hi = lo - 0.25, hi + 0.5
        if k == "free":
            lb.append(NINF); ub.append(INF)
        elif k == "lower":
            lb.append(lo); ub.append(INF)
        elif k == "upper":
            lb.append(NINF); ub.append(hi)
        elif k == "boxed":
            lb.append(lo); ub.append(hi)
        elif k == "fixed":
            v = 0.5 if j % 2 == 0 else -0.25
            lb.append(v); ub.append(v)
        elif k == "odd":         # bounds that are not binary fractions (x - (x - lb) need not be lb in floating point)
            lb.append(0.1 if j % 2 == 0 else -1.0 / 3.0); ub.append(0.9 if j % 2 == 0 else 0.7)
        elif k == "hugebox":     # large but FINITE bounds (scaled versions exceed 1e20)
            lb.append(-1.0e19); ub.append(3.0e19)
        elif k == "bigbox":      # bounds of large magnitude (absolute activity tolerances must stay absolute)
            lb.append(-1.0e6); ub.append(2.0e6)
        elif k == "bigupper":
            lb.append(NINF); ub.append(1.0e6)
        elif k == "narrowbox":   # not degenerate, but narrower than the activity tolerance
            lb.append(0.25 if j % 2 == 0 else -0.5); ub.append((0.25 if j % 2 == 0 else -0.5) + 5e-9)
        elif k == "intbox":      # integral bounds; a spec with only such variables hands INTEGER-typed bound arrays to Problem.__init__
            lb.append(-1.0 if j % 2 == 0 else -3.0); ub.append(3.0 if j % 2 == 0 else 2.0)
        else:
            raise ValueError(k)
    return lb, ub


def objective(name, n):
    d = [1.0, 2.0, 3.0, 1.5][:n]
    xstar = [2.0, -2.0, 1.5, -1.0][:n]
    if name == "qdiag":  # strictly convex, minimiser xstar (outside the boxes above)
        H = np.diag(d)
        return {"H": H.tolist(), "g": (-H.dot(xstar)).tolist()}
    if name == "qfull":
        H = np.diag(d) + 0.5 * (np.ones((n, n)) - np.eye(n))
        return {"H": H.tolist(), "g": (-H.dot(xstar)).tolist()}
    if name == "qin":  # minimiser inside the boxes
        H = np.diag(d)
        xs = [0.25, -0.125, 0.5, 0.0][:n]
        return {"H": H.tolist(), "g": (-H.dot(xs)).tolist()}
    if name == "lin":
        return {"g": [1.0, -1.0, 0.5, -0.5][:n]}
    if name == "rosen":
        return {"rosen": True} if n >= 2 else {"H": [[2.0]], "g": [-2.0]}
    if name == "cubic":
        return {"H": np.diag(d).tolist(), "g": [0.5, -0.25, 0.125, 0.0][:n], "cub": [1.0 / 3.0] * n}
    if name == "exp":
        return {"exp": [1.0, -0.5, 0.75, 0.25][:n], "H": (0.5 * np.eye(n)).tolist()}
    if name == "singular":  # PSD, singular
        H = np.ones((n, n))
        return {"H": H.tolist(), "g": [-1.0] * n}
    if name == "indef":
        H = np.diag([1.0, -1.0, 1.0, -1.0][:n])
        return {"H": H.tolist(), "g": [0.25] * n}
    if name == "quartic":
        return {"quart": [0.25] * n, "g": [-1.0, 1.0, -0.5, 0.5][:n]}
    raise ValueError(name)


def logbar_objective(n, var_lb, var_ub, base="qdiag"):
    """Objective with a log term whose pole sits half a unit outside a finite bound of
    each bounded variable: evaluation sufficiently far outside the box is NaN."""
    o = objective(base, n)
    pole, sign = [], []
    for j in range(n):
        lo, hi = var_lb[j], var_ub[j]
        if lo != NINF:
            pole.append(lo - 0.5); sign.append(1.0)
        elif hi != INF:
            pole.append(hi + 0.5); sign.append(-1.0)
        else:
            pole.append(-50.0); sign.append(1.0)
    o["logbar"] = {"mu": 0.25, "pole": pole, "sign": sign}
    return o


def row(fn, kind, n, idx=0):
    """One constraint row: function kind x bound kind."""
    if fn == "affine":
        a = ([1.0, 1.0, 1.0, 1.0] if idx == 0 else [1.0, -1.0, 0.5, -0.5])[:n]
        r = {"a": a, "b": 0.0}
        centre = 0.0
    elif fn == "sphere":  # |x|^2 - 1 (idx 0) / |x - e|^2 - 2 (idx 1)
        if idx == 0:
            r = {"Q": (2.0 * np.eye(n)).tolist(), "a": [0.0] * n, "b": -1.0}
        else:
            r = {"Q": (2.0 * np.eye(n)).tolist(), "a": [-2.0] * n, "b": float(n) - 2.0}
        centre = 0.0
    elif fn == "bilinear":
        if n >= 2:
            Q = np.zeros((n, n)); Q[0, 1] = Q[1, 0] = 1.0
            r = {"Q": Q.tolist(), "a": ([0.5] + [0.0] * (n - 1)) if idx == 0 else ([0.0, -0.5] + [0.0] * (n - 2)), "b": 0.0}
        else:
            r = {"Q": [[2.0]], "a": [0.5], "b": 0.0}
        centre = 0.0
    elif fn == "cubic":
        r = {"cub": [1.0] + [0.0] * (n - 1), "a": [0.0] + [1.0] * (n - 1), "b": 0.0}
        centre = 0.0
    else:
        raise ValueError(fn)
    if kind == "eq0":
        r["lb"], r["ub"] = centre, centre
    elif kind == "eqoff":
        r["lb"], r["ub"] = centre + 0.75, centre + 0.75
    elif kind == "lower":
        r["lb"], r["ub"] = centre - 0.5, INF
    elif kind == "upper":
        r["lb"], r["ub"] = NINF, centre + 0.5
    elif kind == "ranged":
        r["lb"], r["ub"] = centre - 0.5, centre + 0.25
    elif kind == "freerow":  # a row without any bound (a user may keep it for bookkeeping): it must not constrain anything
        r["lb"], r["ub"] = NINF, INF
    elif kind == "introw":   # integral row bounds (handed over as an integer-typed array when every bound of the problem is integral)
        r["lb"], r["ub"] = centre - 1.0, centre + 2.0
    elif kind == "inteq":
        r["lb"], r["ub"] = centre + 1.0, centre + 1.0
    elif kind == "narrow":   # ranged row of large magnitude whose width is tiny relative to it (still a range, not an equation)
        r["b"] = r.get("b", 0.0) + 1000.0
        r["lb"], r["ub"] = centre + 1000.0, centre + 1000.004
    else:
        raise ValueError(kind)
    return r


LATTICE = [[0.0, 0.0, 0.0, 0.0], [3.0, -3.0, 2.0, -2.0], [0.3, -0.7, 0.2, 0.9], [-2.0, 2.5, -1.5, 1.0]]


def project(x, lb, ub):
    out = []
    for v, lo, hi in zip(x, lb, ub):
        lo = -math.inf if lo == NINF else lo
        hi = math.inf if hi == INF else hi
        out.append(min(max(v, lo), hi))
    return out


def starts(n, lb, ub, which=(0, 1, 2)):
    seen, out = set(), []
    for k in which:
        p = project(LATTICE[k][:n], lb, ub)
        if tuple(p) not in seen:
            seen.add(tuple(p)); out.append(p)
    return out


def mk(n, obj, rows, var_kinds, x0_idx=2, tight=True, fmt="coo", policy="fresh", y0=None, idtype=False):
    """rows: list of (fn, kind)."""
    lb, ub = var_bounds(var_kinds, tight=tight)
    o = objective(obj, n) if isinstance(obj, str) and obj != "logbar" else (
        logbar_objective(n, lb, ub) if obj == "logbar" else obj)
    rs = [row(fn, kind, n, idx=i) for i, (fn, kind) in enumerate(rows)]
    x0 = project(LATTICE[x0_idx][:n], lb, ub)
    return {"n": n, "obj": o, "rows": rs, "var_lb": lb, "var_ub": ub, "x0": x0, "intbounds": all(k == "intbox" for k in var_kinds),
            "y0": y0 if y0 is not None else [0.0] * len(rs), "fmt": fmt, "policy": policy, "idtype": idtype,
            "tag": f"n{n}|{obj if isinstance(obj, str) else 'custom'}|{','.join(f + ':' + k for f, k in rows)}|{','.join(var_kinds)}|s{x0_idx}"}


CUSTOM_SCALINGS = [
    {"type": "custom", "vw": [1, -2, 3, -1], "cw": [2, -1, 3, -2], "ow": 1},
    {"type": "custom", "vw": [-3, 2, -1, 4], "cw": [-2, 3, 1, 2], "ow": -2},
]


def scaling_for(sc, n, m, at=None, dual=None):
    if sc is None:
        return None
    if isinstance(sc, dict) and sc["type"] == "custom":
        return {"type": "custom", "vw": sc["vw"][:n], "cw": sc["cw"][:m], "ow": sc["ow"]}
    return {"type": sc, "at": at, "dual": dual if dual is not None else [1.0] * m}


def scalings(n, m, at):
    """none, two custom weight sets, Nominal, GradJac, KKT (computed at a generic point)."""
    pt = [v if v != 0.0 else 0.625 for v in at]
    return [None,
            scaling_for(CUSTOM_SCALINGS[0], n, m),
            scaling_for(CUSTOM_SCALINGS[1], n, m),
            scaling_for("Nominal", n, m, pt),
            scaling_for("GradJac", n, m, pt),
            scaling_for("KKT", n, m, pt, [0.5, -1.5, 2.0, -0.75][:m]),
            # all variable / constraint weights zero, only the objective scaled
            {"type": "custom", "vw": [0] * n, "cw": [0] * m, "ow": 3}]


# -------- strictly convex QP class (C03) ------------------------------------------
SPD = {
    1: [[[1.0]], [[4.0]]],
    2: [[[1.0, 0.0], [0.0, 1.0]], [[2.0, 0.5], [0.5, 1.0]], [[10.0, -3.0], [-3.0, 1.5]]],
    3: [[[1.0, 0, 0], [0, 2.0, 0], [0, 0, 4.0]], [[4.0, 1.0, 0.5], [1.0, 3.0, -1.0], [0.5, -1.0, 2.0]]],
}
GVEC = {1: [[-2.0], [0.5]], 2: [[-2.0, 4.0], [1.0, 1.0]], 3: [[-2.0, 4.0, -1.0], [1.0, 1.0, 1.0]]}
AROWS = {
    1: [[[1.0]]],
    2: [[[1.0, 1.0]], [[1.0, -2.0]], [[1.0, 1.0], [1.0, -1.0]]],
    3: [[[1.0, 1.0, 1.0]], [[1.0, 0.0, -1.0], [0.0, 1.0, 1.0]]],
}


def banded_qp(n, pattern, seed_k=0):
    """Tridiagonal SPD Hessian (diagonally dominant, cond < 10), m = n/5 rows each coupling
    three neighbouring variables (full row rank: disjoint supports), feasible by construction
    (x = 0 satisfies every row kind used)."""
    H = np.zeros((n, n))
    for i in range(n):
        H[i, i] = 4.0 + (i % 3)
        if i + 1 < n:
            H[i, i + 1] = H[i + 1, i] = -1.0
    g = [(-1.0) ** i * (1.0 + (i % 4)) for i in range(n)]
    rows = []
    kinds = ROW_KINDS
    for r in range(n // 5):
        a = [0.0] * n
        a[5 * r] = 1.0; a[5 * r + 1] = -1.0; a[5 * r + 2] = 0.5
        k = kinds[(r + seed_k) % 5]
        if k == "eq0":
            lo, hi = 0.0, 0.0
        elif k == "eqoff":
            lo, hi = 0.25, 0.25
        elif k == "lower":
            lo, hi = -0.5, INF
        elif k == "upper":
            lo, hi = NINF, 0.5
        else:
            lo, hi = -0.5, 0.25
        rows.append({"a": a, "b": 0.0, "lb": lo, "ub": hi})
    if pattern == "free":
        vk = ["free"] * n
    elif pattern == "boxed":
        vk = ["boxed"] * n
    else:
        vk = [VAR_KINDS[(i + seed_k) % 4] for i in range(n)]  # no fixed: keep rows satisfiable
    lb, ub = var_bounds(vk, tight=True)
    return {"n": n, "obj": {"H": H.tolist(), "g": g}, "rows": rows, "var_lb": lb, "var_ub": ub,
            "x0": project([0.0] * n, lb, ub), "y0": [0.0] * len(rows), "fmt": "csr", "policy": "fresh",
            "tag": f"banded{n}|{pattern}|k{seed_k}"}
