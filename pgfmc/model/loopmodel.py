"""Reference model of the outer solve loop (no pygradflow import).

State: iteration, accepted steps, current point id, lambda, solver rho, policy rho, path,
model times, status.  One transition consumes one environment answer tuple:
    (clock_expired: bool, controller answer, penalty answer)
Termination by the oracle's classification of the current point.
"""

DEFAULT_LAMB_FAIL = 2.0


class LoopModel:
    def __init__(self, start, lamb_init, rho_init, lamb_max, limit, classify):
        self.it = 0
        self.accepted = 0
        self.cur = start
        self.lamb = lamb_init
        self.rho = rho_init        # rho the solver uses for trial steps
        self.rho_pol = rho_init    # rho tracked by the (scripted) policy
        self.lamb_max = lamb_max
        self.limit = limit
        self.classify = classify   # point id -> None | "Optimal" | "LocallyInfeasible" | "Unbounded"
        self.path = [start]
        self.times = [0.0]
        self.status = None
        self.error = None          # deliberate error text prefix
        self.callbacks = []        # (start point id, announced point id or None, controller accept)
        self.trials = []           # (start point id, rho, dt)
        self.trace = [self.canon()]

    def canon(self):
        import math

        return (self.it, self.accepted, self.cur, round(math.log2(self.lamb), 6), round(math.log10(self.rho), 6),
                round(math.log10(self.rho_pol), 6), self.status, self.error)

    def terminal(self, expired):
        """Status decided at the top of the loop (None = continue)."""
        if self.limit is not None and self.it >= self.limit:
            return "IterationLimit"
        if expired:
            return "TimeLimit"
        return self.classify(self.cur)

    def step(self, expired, ctl, pen):
        """One loop iteration.  Returns False when the run has ended."""
        st = self.terminal(expired)
        if st is not None:
            self.status = st
            self.trace.append(self.canon())
            return False
        dt = 1.0 / self.lamb
        self.trials.append((self.cur, self.rho, dt))
        kind = ctl[0]
        lam_used = 1.0 / dt
        if kind == "acc":
            nxt, acc, lam_n = ctl[1], True, ctl[2] * lam_used
        elif kind == "rej":
            nxt, acc, lam_n = ctl[1], False, ctl[2] * lam_used
        elif kind in ("sse", "eval", "acc_bad"):
            nxt, acc, lam_n = self.cur, False, DEFAULT_LAMB_FAIL * lam_used
        elif kind == "lammax":
            nxt, acc, lam_n = ctl[1], True, self.lamb_max * ctl[2]
        else:
            raise ValueError(kind)
        self.lamb = lam_n
        if lam_n >= self.lamb_max:
            self.error = "Inverse step size"
            self.trace.append(self.canon())
            return False
        self.callbacks.append((self.cur, nxt, acc))
        if acc:
            if pen == "same":
                nrho, acc = self.rho_pol, True
            elif pen == "x10":
                self.rho_pol = self.rho_pol * 10.0
                nrho, acc = self.rho_pol, True
            elif pen == "veto":
                self.rho_pol = self.rho_pol * 10.0
                nrho, acc = self.rho_pol, False
            else:
                raise ValueError(pen)
            if acc:
                self.rho = nrho
                self.path.append(nxt)
                self.times.append(self.times[-1] + dt)   # the step size that was used
                self.cur = nxt
                self.accepted += 1
        self.it += 1
        self.trace.append(self.canon())
        return True
