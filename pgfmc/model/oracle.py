"""Dense reference mathematics generated from a problem *spec*.

This module never imports pygradflow.  It provides
  Funcs      f, grad f, c, J, Hessians of the problem exactly as the user posed it
  RefTrans   the internal (power-of-two scaled + slack/offset embedded) problem, written
             from the formulas in the property statements
  RefPoint   augmented Lagrangian, residuals, bound multipliers, infeasibility test
  implicit-Euler residual and generalised Jacobian for a given active set
  kkt_complaints  the C01 oracle (user space, scaled tolerances)
"""
import math

import numpy as np

INF = math.inf


def arr(v, n=None, dtype=float):
    if v is None:
        return np.zeros((n,), dtype=dtype)
    return np.array([_unj(t) for t in v], dtype=dtype)


def _unj(t):
    if t == "inf":
        return INF
    if t == "-inf":
        return -INF
    return t


def mat(v, n):
    if v is None:
        return np.zeros((n, n))
    return np.array(v, dtype=float).reshape((n, n))


class Funcs:
    def __init__(self, spec):
        n = self.n = int(spec["n"])
        o = spec["obj"]
        self.H = mat(o.get("H"), n)
        self.g = arr(o.get("g"), n)
        self.cub = arr(o.get("cub"), n)
        self.quart = arr(o.get("quart"), n)
        self.exp = arr(o.get("exp"), n) if o.get("exp") is not None else None
        self.logbar = o.get("logbar")  # {"mu":..., "pole":[...], "sign":[...]}
        self.rosen = bool(o.get("rosen"))
        self.entropy = bool(o.get("entropy"))  # sum x log x - x, defined for x > 0 only
        rows = spec.get("rows", [])
        self.m = len(rows)
        self.Q = [mat(r.get("Q"), n) for r in rows]
        self.hasQ = [r.get("Q") is not None for r in rows]
        self.A = np.array([arr(r.get("a"), n) for r in rows]).reshape((self.m, n))
        self.b = np.array([float(r.get("b", 0.0)) for r in rows])
        self.ccub = np.array([arr(r.get("cub"), n) for r in rows]).reshape((self.m, n))
        # positive-part cubic: sum_j pcub_j * max(x_j, 0)^3  (twice continuously differentiable, locally linear for x_j <= 0)
        self.cpcub = np.array([arr(r.get("pcub"), n) for r in rows]).reshape((self.m, n))
        self.cons_lb = np.array([_unj(r["lb"]) for r in rows], dtype=float)
        self.cons_ub = np.array([_unj(r["ub"]) for r in rows], dtype=float)
        self.var_lb = arr(spec["var_lb"], n)
        self.var_ub = arr(spec["var_ub"], n)

    # ---- objective
    def f(self, x):
        x = np.asarray(x, dtype=float)
        v = 0.5 * x.dot(self.H.dot(x)) + self.g.dot(x) + self.cub.dot(x ** 3) + self.quart.dot(x ** 4)
        if self.exp is not None:
            v += float(np.sum(np.exp(self.exp * x)))
        if self.logbar is not None:
            t = (x - arr(self.logbar["pole"])) * arr(self.logbar["sign"])
            with np.errstate(all="ignore"):
                v += -self.logbar["mu"] * float(np.sum(np.log(t)))
        if self.rosen:
            for i in range(self.n - 1):
                v += 100.0 * (x[i + 1] - x[i] ** 2) ** 2 + (1.0 - x[i]) ** 2
        if self.entropy:
            with np.errstate(all="ignore"):
                v += float(np.sum(x * np.log(x) - x))
        return float(v)

    def grad(self, x):
        x = np.asarray(x, dtype=float)
        g = self.H.dot(x) + self.g + 3.0 * self.cub * x ** 2 + 4.0 * self.quart * x ** 3
        if self.exp is not None:
            g = g + self.exp * np.exp(self.exp * x)
        if self.logbar is not None:
            s = arr(self.logbar["sign"])
            t = (x - arr(self.logbar["pole"])) * s
            with np.errstate(all="ignore"):
                gl = -self.logbar["mu"] * s / t
                gl[t <= 0] = np.nan
            g = g + gl
        if self.rosen:
            for i in range(self.n - 1):
                g[i] += -400.0 * x[i] * (x[i + 1] - x[i] ** 2) - 2.0 * (1.0 - x[i])
                g[i + 1] += 200.0 * (x[i + 1] - x[i] ** 2)
        if self.entropy:
            with np.errstate(all="ignore"):
                g = g + np.log(x)
        return g

    def hessf(self, x):
        x = np.asarray(x, dtype=float)
        Hm = self.H + np.diag(6.0 * self.cub * x + 12.0 * self.quart * x ** 2)
        if self.exp is not None:
            Hm = Hm + np.diag(self.exp ** 2 * np.exp(self.exp * x))
        if self.logbar is not None:
            s = arr(self.logbar["sign"])
            t = (x - arr(self.logbar["pole"])) * s
            with np.errstate(all="ignore"):
                hl = self.logbar["mu"] / (t * t)
                hl[t <= 0] = np.nan
            Hm = Hm + np.diag(hl)
        if self.rosen:
            Hm = Hm.copy()
            for i in range(self.n - 1):
                Hm[i, i] += 1200.0 * x[i] ** 2 - 400.0 * x[i + 1] + 2.0
                Hm[i, i + 1] += -400.0 * x[i]
                Hm[i + 1, i] += -400.0 * x[i]
                Hm[i + 1, i + 1] += 200.0
        if self.entropy:
            with np.errstate(all="ignore"):
                Hm = Hm + np.diag(np.where(x > 0, 1.0 / x, np.nan))
        return Hm

    # ---- constraints
    def c(self, x):
        x = np.asarray(x, dtype=float)
        out = np.zeros((self.m,))
        for i in range(self.m):
            out[i] = 0.5 * x.dot(self.Q[i].dot(x)) + self.A[i].dot(x) + self.b[i] + self.ccub[i].dot(x ** 3) + self.cpcub[i].dot(np.maximum(x, 0.0) ** 3)
        return out

    def jac(self, x):
        x = np.asarray(x, dtype=float)
        J = np.zeros((self.m, self.n))
        for i in range(self.m):
            J[i] = self.Q[i].dot(x) + self.A[i] + 3.0 * self.ccub[i] * x ** 2 + 3.0 * self.cpcub[i] * np.maximum(x, 0.0) ** 2
        return J

    def hessc(self, x, y):
        x = np.asarray(x, dtype=float)
        Hm = np.zeros((self.n, self.n))
        for i in range(self.m):
            if not self.hasQ[i] and not self.ccub[i].any() and not self.cpcub[i].any():
                continue  # affine row: contributes nothing, whatever the multiplier (as a hand-written Hessian would)
            Hm = Hm + y[i] * (self.Q[i] + np.diag(6.0 * self.ccub[i] * x + 6.0 * self.cpcub[i] * np.maximum(x, 0.0)))
        return Hm

    def hessL(self, x, y):
        return self.hessf(x) + self.hessc(x, y)

    # ---- structural sparsity patterns (may contain explicit zeros)
    def jac_pattern(self):
        P = np.zeros((self.m, self.n), dtype=bool)
        for i in range(self.m):
            P[i] = (self.A[i] != 0) | (np.abs(self.Q[i]).sum(axis=0) != 0) | (self.ccub[i] != 0) | (self.cpcub[i] != 0)
        return P

    def hess_pattern(self):
        P = self.H != 0
        d = (self.cub != 0) | (self.quart != 0)
        if self.exp is not None:
            d = d | (self.exp != 0)
        if self.logbar is not None or self.entropy:
            d = d | True
        P = P | np.diag(d)
        if self.rosen:
            for i in range(self.n - 1):
                P[i, i] = P[i + 1, i + 1] = P[i, i + 1] = P[i + 1, i] = True
        for i in range(self.m):
            P = P | (self.Q[i] != 0) | np.diag((self.ccub[i] != 0) | (self.cpcub[i] != 0))
        return P


# ----------------------------------------------------------------------------------
class RefTrans:
    """Reference internal problem:  x_s = 2^vw x,  c_s = 2^cw c,  f_s = 2^ow f,
    equality rows offset by -l_s, every non-equality row i becomes c_s,i - s_i = 0 with
    l_s,i <= s_i <= u_s,i (slack columns appended in row order)."""

    def __init__(self, funcs, vw=None, cw=None, ow=0):
        self.F = funcs
        n, m = funcs.n, funcs.m
        self.vw = np.zeros((n,), dtype=int) if vw is None else np.array(vw, dtype=int)
        self.cw = np.zeros((m,), dtype=int) if cw is None else np.array(cw, dtype=int)
        self.ow = int(ow)
        self.var_lb_s = np.ldexp(funcs.var_lb, self.vw)
        self.var_ub_s = np.ldexp(funcs.var_ub, self.vw)
        self.cons_lb_s = np.ldexp(funcs.cons_lb, self.cw)
        self.cons_ub_s = np.ldexp(funcs.cons_ub, self.cw)
        self.slack_pos = np.array([i for i in range(m) if self.cons_lb_s[i] != self.cons_ub_s[i]], dtype=int)
        self.eq = np.array([self.cons_lb_s[i] == self.cons_ub_s[i] for i in range(m)], dtype=bool)
        self.offset = np.where(self.eq, -self.cons_lb_s, 0.0) if m else np.zeros((0,))
        self.ns = len(self.slack_pos)
        self.n = n + self.ns
        self.m = m
        self.var_lb = np.concatenate([self.var_lb_s, self.cons_lb_s[self.slack_pos]])
        self.var_ub = np.concatenate([self.var_ub_s, self.cons_ub_s[self.slack_pos]])

    # user-space <-> scaled-space
    def x_user(self, xi):
        return np.ldexp(np.asarray(xi, dtype=float)[: self.F.n], -self.vw)

    def y_user(self, yi):
        return np.ldexp(np.asarray(yi, dtype=float), self.cw - self.ow)

    def obj(self, xi):
        return float(np.ldexp(self.F.f(self.x_user(xi)), self.ow))

    def grad(self, xi):
        g = np.ldexp(self.F.grad(self.x_user(xi)), self.ow - self.vw)
        return np.concatenate([g, np.zeros((self.ns,))])

    def cons_scaled(self, xs):
        return np.ldexp(self.F.c(np.ldexp(xs, -self.vw)), self.cw)

    def cons(self, xi):
        xi = np.asarray(xi, dtype=float)
        c = self.cons_scaled(xi[: self.F.n])
        c = c + self.offset
        if self.ns:
            c[self.slack_pos] = c[self.slack_pos] - xi[self.F.n:]
        return c

    def jac(self, xi):
        J = self.F.jac(self.x_user(xi))
        W = self.cw[:, None] - self.vw[None, :]
        Js = np.ldexp(J, W) if self.m else J
        E = np.zeros((self.m, self.ns))
        for k, p in enumerate(self.slack_pos):
            E[p, k] = -1.0
        return np.hstack([Js, E])

    def hess(self, xi, yi):
        Hm = self.F.hessL(self.x_user(xi), self.y_user(yi))
        W = self.ow - self.vw[:, None] - self.vw[None, :]
        Hs = np.ldexp(Hm, W)
        out = np.zeros((self.n, self.n))
        out[: self.F.n, : self.F.n] = Hs
        return out

    def transform_sol(self, x, y):
        xs = np.ldexp(np.asarray(x, dtype=float), self.vw)
        ys = np.ldexp(np.asarray(y, dtype=float), self.ow - self.cw)
        if self.ns == 0:
            return xs, ys
        cs = self.cons_scaled(xs)
        s = np.clip(cs, self.cons_lb_s, self.cons_ub_s)[self.slack_pos]
        return np.concatenate([xs, s]), ys

    def restore_sol(self, xi, yi, di):
        n = self.F.n
        return (np.ldexp(np.asarray(xi)[:n], -self.vw),
                np.ldexp(np.asarray(yi), self.cw - self.ow),
                np.ldexp(np.asarray(di)[:n], self.vw - self.ow))


# ----------------------------------------------------------------------------------
class RefPoint:
    """Quantities of the internal problem at (x, y) from their definitions."""

    def __init__(self, T, x, y, active_tol=1e-8):
        self.T, self.x, self.y = T, np.asarray(x, dtype=float), np.asarray(y, dtype=float)
        self.f = T.obj(x)
        self.g = T.grad(x)
        self.c = T.cons(x)
        self.J = T.jac(x)
        lb, ub = T.var_lb, T.var_ub
        at_l = np.abs(self.x - lb) <= active_tol
        at_u = np.abs(ub - self.x) <= active_tol
        self.at_both = at_l & at_u
        self.at_lower = at_l & ~self.at_both
        self.at_upper = at_u & ~self.at_both

    def aug_lag(self, rho):
        return self.f + rho / 2.0 * self.c.dot(self.c) + self.c.dot(self.y)

    def dx(self, rho):
        return self.g + self.J.T.dot(rho * self.c + self.y)

    def dxx(self, rho):
        return self.T.hess(self.x, self.y + rho * self.c) + rho * self.J.T.dot(self.J)

    @property
    def cons_violation(self):
        return float(np.max(np.abs(self.c))) if self.c.size else 0.0

    @property
    def bound_violation(self):
        lo = np.maximum(self.T.var_lb - self.x, 0.0)
        up = np.maximum(self.x - self.T.var_ub, 0.0)
        return float(max(np.max(lo, initial=0.0), np.max(up, initial=0.0)))

    @property
    def bounds_dual(self):
        r = -(self.g + self.J.T.dot(self.y))
        d = np.zeros_like(self.x)
        d[self.at_upper] = np.maximum(r[self.at_upper], 0.0)
        d[self.at_lower] = np.minimum(r[self.at_lower], 0.0)
        d[self.at_both] = r[self.at_both]
        return d

    @property
    def stat_res(self):
        r = self.g + self.J.T.dot(self.y) + self.bounds_dual
        return float(np.max(np.abs(r))) if r.size else 0.0

    @property
    def total_res(self):
        return max(self.cons_violation, self.bound_violation, self.stat_res)

    def infeas_stationarity(self):
        """inf-norm of the box-projected gradient of 1/2|c|^2."""
        r = self.J.T.dot(self.c)
        r = r.copy()
        r[self.at_lower] = np.minimum(r[self.at_lower], 0.0)
        r[self.at_upper] = np.maximum(r[self.at_upper], 0.0)
        return float(np.max(np.abs(r))) if r.size else 0.0

    def locally_infeasible(self, feas_tol, infeas_tol):
        return self.cons_violation > feas_tol and self.infeas_stationarity() <= infeas_tol


def implicit_p(T, z0, pt, rho, dt):
    """x0 - dt * grad_x L_rho(x, y): the argument of the projection."""
    x0 = z0[0]
    return x0 - dt * pt.dx(rho)


def implicit_active(T, p):
    return (p < T.var_lb - 1e-8) | (p > T.var_ub + 1e-8)


def implicit_value(T, z0, pt, rho, dt, active):
    x0, y0 = z0
    p = implicit_p(T, z0, pt, rho, dt)
    proj = p.copy()
    proj[active] = np.clip(p[active], T.var_lb[active], T.var_ub[active])
    return np.concatenate([pt.x - proj, pt.y - (y0 + dt * pt.c)])


def implicit_jac(T, pt, rho, dt, active):
    n, m = T.n, T.m
    Hr = pt.dxx(rho)
    J = pt.J
    inact = ~np.asarray(active, dtype=bool)
    F11 = np.eye(n)
    F11[inact, :] += dt * Hr[inact, :]
    F12 = np.zeros((n, m))
    F12[inact, :] = dt * J.T[inact, :]
    return np.block([[F11, F12], [-dt * J, np.eye(m)]])


# ----------------------------------------------------------------------------------
def kkt_complaints(funcs, x, y, d, opt_tol, active_tol, vw=None, cw=None, ow=0, slack=1e-6):
    """C01 oracle in user space with scaled tolerances.  Returns list of strings."""
    F = funcs
    n, m = F.n, F.m
    vw = np.zeros((n,), dtype=int) if vw is None else np.asarray(vw, dtype=int)
    cw = np.zeros((m,), dtype=int) if cw is None else np.asarray(cw, dtype=int)
    x, y, d = (np.asarray(t, dtype=float) for t in (x, y, d))
    out = []
    if not (np.isfinite(x).all() and np.isfinite(y).all() and np.isfinite(d).all()):
        return ["non-finite x, y or d"]
    if (x < F.var_lb).any() or (x > F.var_ub).any():
        out.append(f"variable bounds violated: x={x.tolist()}")
    tol = opt_tol * (1.0 + slack)
    c = F.c(x)
    J = F.jac(x)
    g = F.grad(x)
    eps = np.finfo(float).eps
    for i in range(m):
        sc = 2.0 ** int(cw[i])
        dist = max(F.cons_lb[i] - c[i], c[i] - F.cons_ub[i], 0.0)
        if sc * dist > tol + 8 * eps * sc * (abs(c[i]) + 1.0):
            out.append(f"constraint {i} violated: c={c[i]!r} not in [{F.cons_lb[i]},{F.cons_ub[i]}] (scaled dist {sc * dist:.3e})")
    r = g + J.T.dot(y) + d
    for j in range(n):
        sc = 2.0 ** int(ow - vw[j])
        mag = abs(g[j]) + np.abs(J[:, j]).dot(np.abs(y)) + abs(d[j])
        if sc * abs(r[j]) > tol + 16 * eps * sc * mag:
            out.append(f"stationarity component {j}: residual {r[j]!r} (scaled {sc * abs(r[j]):.3e})")
    for i in range(m):
        if F.cons_lb[i] == F.cons_ub[i]:
            continue
        sc = 2.0 ** int(cw[i])
        ys = y[i] * 2.0 ** int(ow - cw[i])  # multiplier in scaled units
        room = (tol + active_tol) * (1.0 + slack) + 8 * eps * sc * (abs(c[i]) + 1.0)
        if ys > tol and not (sc * abs(F.cons_ub[i] - c[i]) <= room):
            out.append(f"y[{i}]={y[i]!r} positive but c={c[i]!r} not at upper bound {F.cons_ub[i]}")
        if ys < -tol and not (sc * abs(c[i] - F.cons_lb[i]) <= room):
            out.append(f"y[{i}]={y[i]!r} negative but c={c[i]!r} not at lower bound {F.cons_lb[i]}")
    for j in range(n):
        if d[j] == 0.0:
            continue
        sc = 2.0 ** int(vw[j])
        at_l = sc * abs(x[j] - F.var_lb[j]) <= active_tol if np.isfinite(F.var_lb[j]) else False
        at_u = sc * abs(F.var_ub[j] - x[j]) <= active_tol if np.isfinite(F.var_ub[j]) else False
        if not (at_l or at_u):
            out.append(f"d[{j}]={d[j]!r} non-zero away from bounds (x={x[j]!r})")
        elif at_l and at_u:
            pass
        elif at_u and d[j] < 0:
            out.append(f"d[{j}]={d[j]!r} negative at upper bound")
        elif at_l and d[j] > 0:
            out.append(f"d[{j}]={d[j]!r} positive at lower bound")
    return out
