import importlib
import os
import sys


def main(argv):
    if len(argv) < 1:
        print("usage: check <ID> <quick|thorough> | check replay <file> | check selftest")
        return 2
    from pgfmc.core import framework

    if argv[0] == "replay":
        return framework.replay(argv[1])
    if argv[0] == "selftest":
        from pgfmc.core import selftest

        return selftest.run()
    prop = argv[0].upper()
    tier = argv[1] if len(argv) > 1 else os.environ.get("VERIF_TIER", "quick")
    seed = int(os.environ.get("VERIF_SEED", "0"))
    mod = importlib.import_module("pgfmc.props." + prop.lower())
    return framework.run_check(mod, tier, seed)


if __name__ == "__main__":
    sys.exit(main(sys.argv[1:]))
