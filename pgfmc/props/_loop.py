"""Shared scripted-loop exploration (used by C02, C12, C15, C16): deviation-bounded
enumeration of all environment answer sequences of the real Solver.solve loop."""
import itertools

DEPTH = 6
N_READS = 16
LIMITS = [0, 1, 2, 3, 4, 5, 6]
CHUNK = 400

ASPECTS = {
    "C02": {"status", "iterations", "limit_exceeded", "time_limit_early", "final_point", "crash", "abort"},
    "C12": {"iterations", "accepted", "final_point", "path", "model_times", "dist_factor", "callbacks", "trials", "trial_start", "crash"},
    "C15": {"trial_dt", "trial_start", "trial_beyond_lamb_max", "abort", "trials", "crash"},
    "C16": {"trial_rho", "trials", "crash"},
}


def slots():
    from pgfmc.drive import scripted as SC

    alts = SC.controller_alternatives()
    base = SC.default_route(DEPTH)
    sl = []
    for p in range(DEPTH):
        sl.append(("ctl", p, [i for i, a in enumerate(alts) if a != base[p]]))
    for p in range(DEPTH):
        sl.append(("pen", p, list(range(len(SC.PEN_ALTS)))))
    sl.append(("limit", 0, list(range(len(LIMITS)))))
    sl.append(("expire", 0, list(range(1, N_READS + 1))))
    sl.append(("start", 0, list(range(1, 9))))
    sl.append(("lamb", 0, [0, 1]))
    sl.append(("lmin", 0, [0, 1]))
    return sl


def gen_execs(maxdev):
    sl = slots()
    yield ()
    for k in range(1, maxdev + 1):
        for combo in itertools.combinations(range(len(sl)), k):
            for choice in itertools.product(*[sl[i][2] for i in combo]):
                yield tuple((sl[i][0], sl[i][1], c) for i, c in zip(combo, choice))


def materialize(desc):
    from pgfmc.drive import scripted as SC

    alts = SC.controller_alternatives()
    ctl = list(SC.default_route(DEPTH))
    pen = ["same"] * DEPTH
    case = {"limit": None, "expire_at": None, "start": "N1", "lamb_init": 1.0, "lamb_max": 64.0}
    E = SC.env()
    for kind, pos, c in desc:
        if kind == "ctl":
            ctl[pos] = alts[c]
        elif kind == "pen":
            pen[pos] = SC.PEN_ALTS[c]
        elif kind == "limit":
            case["limit"] = LIMITS[c]
        elif kind == "expire":
            case["expire_at"] = c
        elif kind == "start":
            case["start"] = [n for n in E.names if n != "BAD"][c]
        elif kind == "lamb":
            case["lamb_init"] = [16.0, 0.25][c]
        elif kind == "lmin":
            case["lamb_min"] = [0.75, 4.0][c]
    case["ctl"] = [list(a) for a in ctl]
    case["pen"] = pen
    return case


def cases(tier, seed):
    maxdev = 2 if tier == "quick" else 3
    out, cur = [], []
    for d in gen_execs(maxdev):
        cur.append([list(t) for t in d])
        if len(cur) >= CHUNK:
            out.append({"execs": cur, "maxdev": maxdev})
            cur = []
    if cur:
        out.append({"execs": cur, "maxdev": maxdev})
    return out


def run_chunk(case, prop):
    from pgfmc.drive import scripted as SC

    aspects = ASPECTS[prop]
    viol = []
    states, trans = set(), set()
    outcomes = {}
    n = 0
    sample = None
    for d in case["execs"]:
        desc = tuple(tuple(t) for t in d)
        c = materialize(desc)
        D, M, info = SC.execute(c)
        n += 1
        tr = M.trace
        for a, b in zip(tr, tr[1:]):
            trans.add(hash((a, b)))
        for s in tr:
            states.add(hash(s))
        outcomes[info["status"]] = outcomes.get(info["status"], 0) + 1
        if sample is None and len(desc) == case["maxdev"]:
            sample = {"deviations": [list(t) for t in desc], "script": c, "model_trace": [list(map(str, s)) for s in tr]}
        for asp, msg in D:
            if asp in aspects and len(viol) < 8:
                viol.append({"sig": f"{prop}|loop|{asp}", "msg": f"{asp}: {msg}; deviations={list(desc)}",
                             "detail": {"exec": [list(t) for t in desc]},
                             "case": {"t": "loop", "execs": [[list(t) for t in desc]], "maxdev": case["maxdev"]}})
    # replay artefacts carry only the failing execution
    seen, vs = set(), []
    for v in viol:
        if v["sig"] not in seen:
            seen.add(v["sig"])
            vs.append(v)
    return {"outcome": "conform" if not viol else "violating", "key": None, "violations": vs,
            "stats": {"execs": n, "states": list(states), "trans": list(trans), "outcomes": outcomes, "sample": sample}}


def merge(results):
    states, trans = set(), set()
    execs = 0
    outcomes = {}
    sample = None
    for r in results:
        st = r.get("stats", {})
        states.update(st.get("states", []))
        trans.update(st.get("trans", []))
        execs += st.get("execs", 0)
        for k, v in st.get("outcomes", {}).items():
            outcomes[k] = outcomes.get(k, 0) + v
        if sample is None and st.get("sample"):
            sample = st["sample"]
    return {"loop_states": len(states), "loop_transitions": len(trans), "loop_executions": execs,
            "loop_outcomes": outcomes, "loop_sample": sample}
