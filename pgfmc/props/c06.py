"""C06 solve() ends with a status or a deliberate error, never an internal crash."""
import itertools
import logging

import numpy as np

from pgfmc.drive import grid as G
from pgfmc.drive import monitors as M

ID = "C06"
LEVEL = "exploration"
RULE = ("every case is a complete solve(): adversarial spec families (infeasible, unbounded, degenerate LICQ, fixed variables, m=0, singular / "
        "indefinite Hessian, flat minimum) and core specs x configuration table over 7 axes (Newton 4, step solver 4, linear solver 3, controller 4, "
        "penalty 6, active-set 4, options 7: plain / report_rcond / collect_path / display every row / DEBUG log / DEBUG+display / single precision) - quick: "
        "all one-factor and two-factor combinations plus a VERIF_SEED slice of the full product, thorough: the full product - x scalings cycling "
        "through {none, custom, Nominal, GradJac, KKT}; plus a long-horizon slice for the vetoing filter policies; oracle: outcome is one of the "
        "five statuses with finite x,y,d or a deliberate message-carrying error; distinct = (spec, configuration, scaling)")
ASSUMPTIONS = ["horizon 60 iterations (long-horizon slice: 400 quick / 2000 thorough)", "MA57/MUMPS/SSIDS/Cholesky and the cyipopt controllers are absent from the image",
               "deliberate errors: initial point, inverse step size, line search, derivative check (recognised by message prefix / DerivError)"]
CASE_ALARM_S = 300
TIMEOUT_IS_VIOLATION = "a solve with an iteration limit did not return (neither status nor error)"
OPTS = ["plain", "rcond", "path", "display", "debug", "debug_display", "single"]


def axes():
    a = dict(G.AXES)
    a["opts"] = OPTS
    return a


def default():
    d = dict(G.DEFAULT); d["opts"] = "plain"
    return d


def key(c):
    return G.cfg_key(c) + "|" + c.get("opts", "plain")


def cfgs_pairs():
    A = axes()
    out, seen = [], set()

    def add(c):
        if G.R.valid_combo(c) and key(c) not in seen:
            seen.add(key(c)); out.append(c)

    add(default())
    for a, b in itertools.combinations(A, 2):
        for va in A[a]:
            for vb in A[b]:
                c = default(); c[a] = va; c[b] = vb
                add(c)
    return out


def cfgs_full():
    A = axes()
    out = []
    for vals in itertools.product(*[A[k] for k in A]):
        c = dict(zip(A, vals))
        if G.R.valid_combo(c):
            out.append(c)
    return out


def cases(tier, seed):
    out = []
    from pgfmc.model import specs as S
    # bounds that are not representable in single precision (and not binary fractions)
    odd = [S.mk(2, "qdiag", [], ["odd", "odd"], x0_idx=0), S.mk(2, "cubic", [("affine", "ranged")], ["odd", "free"], x0_idx=1)]
    specs = G.adversarial_specs() + G.core_specs()[:3] + odd
    idx = 0
    if tier == "quick":
        table = [(spec, cfg) for spec in specs for cfg in cfgs_pairs()]
        full = G.slice_of(cfgs_full(), seed, 96)
        table += [(spec, cfg) for spec in specs[:4] for cfg in full]
    else:
        # the full configuration product on 3 specs, all pairs of options on the others (bounds the thorough tier to about 15 minutes)
        table = [(spec, cfg) for spec in specs[:2] + specs[-5:-4] for cfg in cfgs_full()]
        table += [(spec, cfg) for spec in specs[2:-5] + specs[-4:] for cfg in cfgs_pairs()]
    for spec, cfg in table:
        sc = G.scalings_of(spec, (0, 1, 3, 4, 5))[idx % 5] if tier == "quick" else G.scalings_of(spec, (0, 1, 3, 4, 5))[idx % 5]
        idx += 1
        c = dict(cfg); c["iteration_limit"] = 60
        out.append({"spec": spec, "cfg": c, "sc": sc})
    # non-default tolerances, gains, unvalidated input and a user-supplied active-set rule on every spec
    for spec in specs:
        for vi in range(len(G.PARAM_VARIANTS)):
            for ctl in ("DistanceRatio", "Exact", "ResiduumRatio"):
                c = default(); c["control"] = ctl; c["iteration_limit"] = 60; c["pv"] = vi
                out.append({"spec": spec, "cfg": c, "sc": None})
    # long horizon: vetoing / growing penalties with controllers that never shrink the step
    H = 400 if tier == "quick" else 2000
    for spec in (G.core_specs()[:3] + G.adversarial_specs()[:3]):
        for pen in ("ObjectiveFilter", "LagrangianFilter", "DualEquilibration", "ParetoDecrease"):
            for ctl in ("Fixed", "Exact", "DistanceRatio"):
                c = default(); c["penalty"] = pen; c["control"] = ctl; c["iteration_limit"] = H
                out.append({"spec": spec, "cfg": c, "sc": None})
    # single precision on isotropic quadratics (straight trajectories: path length and direct distance coincide up to rounding)
    for n_ in (2, 3):
        for c_ in (1.0, 0.37, 12.5):
            for x0 in ([3.0, -1.0, 2.0], [0.3, 0.7, -0.2], [100.0, 33.0, -71.0], [1e-3, 2e-3, -3e-3]):
                for linit in (1.0, 0.1, 7.0):
                    spec = G.raw(n_, {"H": (c_ * np.eye(n_)).tolist(), "g": [-c_ * v for v in [1.0, -2.0, 0.5][:n_]]}, [], ["-inf"] * n_, ["inf"] * n_, x0[:n_],
                                 f"isotropic|{n_}|{c_}|{x0[0]}")
                    c = default(); c["iteration_limit"] = 60; c["opts"] = "single"; c["params"] = {"lamb_init": linit}
                    out.append({"spec": spec, "cfg": c, "sc": None})
    # a second solve on a solver object whose first solve ended in a (deliberate) error or was aborted: a status or a deliberate error again
    for spec in (G.core_specs()[:3] + G.adversarial_specs()[:3]):
        for ctl in ("DistanceRatio", "Exact", "Fixed"):
            c = default(); c["control"] = ctl; c["iteration_limit"] = 60; c["params"] = {"lamb_max": 4.0, "lamb_init": 2.0}
            out.append({"spec": spec, "cfg": c, "sc": None, "retry": True})
    # very long runs of tiny steps (fixed step size 1/1000, tens of thousands of iterations), both precisions: accumulated quantities
    for spec in (G.raw(1, {"H": [[1.0]], "g": [0.0]}, [], ["-inf"], ["inf"], [1.0], "long|quadratic1"),
                 G.raw(2, {"H": [[1.0, 0.0], [0.0, 2.0]], "g": [-2.0, 4.0]}, [{"a": [1.0, 1.0], "b": 0.0, "lb": -0.5, "ub": 0.25}], [-0.5, -0.75], [0.75, "inf"],
                       [0.3, -0.7], "long|qdiag_ranged")):
        for opts in ("plain", "single"):
            for linit in ((1000.0,) if tier == "quick" else (100.0, 1000.0, 10000.0)):
                c = default(); c["control"] = "Fixed"; c["iteration_limit"] = 25000 if tier == "quick" else 60000; c["opts"] = opts
                c["params"] = {"lamb_init": linit}
                out.append({"spec": spec, "cfg": c, "sc": None})
    return out


def apply_opts(cfg):
    c = dict(cfg)
    o = c.pop("opts", "plain")
    p = dict(c.get("params") or {})
    lvl = None
    if o == "rcond":
        p["report_rcond"] = True
    elif o == "path":
        p["collect_path"] = True
    elif o == "display":
        c["display_interval"] = 0.0
    elif o == "single":
        p["precision"] = "Single"
    elif o == "debug":
        lvl = logging.DEBUG
    elif o == "debug_display":
        lvl = logging.DEBUG
        c["display_interval"] = 0.0
    c["params"] = p
    return c, lvl


def run_case(case):
    from pgfmc.drive.run import outcome_of

    case = G.with_variant(case)
    cfg, lvl = apply_opts(case["cfg"])
    ctx = G.execute({"spec": case["spec"], "cfg": cfg, "sc": case["sc"]}, log_level=lvl)
    if ctx.setup_error is not None:
        e = ctx.setup_error
        # constructing the solver (scaling) is part of "solve ends with a status or a deliberate error"
        if "Equilibration failed to converge" in str(e):
            return {"outcome": "setup:equilibration", "key": None, "violations": [], "stats": {}}
        from pgfmc.drive.run import exc_info
        ei = exc_info(e)
        return {"outcome": "setup-crash:" + ei["cls"], "key": None,
                "violations": [M.V(f"C06|setup_crash|{ei['cls']}|{ei['site']}", f"Solver construction died: {ei['cls']}: {ei['msg']}")], "stats": {}}
    viol = M.mon_c06(ctx.rec)
    if case["cfg"].get("iteration_limit", 0) >= 1000 and case["cfg"].get("opts", "plain") == "plain" and "lamb_init" not in (case["cfg"].get("params") or {}):
        # long-horizon family: the signature names the input, so that a recorded finding covers exactly that input
        viol = [dict(v, sig=v["sig"].replace("C06|", f"C06|long|{case['spec']['tag']}|{case['cfg'].get('penalty')}|{case['cfg'].get('control')}|", 1)) for v in viol]
    if case.get("retry"):
        from pgfmc.drive import run as R
        x1 = [0.5 * v for v in case["spec"]["x0"]]
        for k in range(2):
            rec2 = R.run_solve(ctx.rec.solver.orig_problem, ctx.params, x1, case["spec"].get("y0"), solver=ctx.rec.solver)
            viol += [dict(v, sig=v["sig"].replace("C06|", "C06|retry|")) for v in M.mon_c06(rec2)]
    return {"outcome": outcome_of(ctx.rec), "key": f"{case['spec']['tag']}|{key(case['cfg'])}|{ctx.weights}|{sorted((k, str(v)[:12]) for k, v in (case['cfg'].get('params') or {}).items())}", "violations": viol,
            "stats": {"it": len(ctx.rec.trials)}}


def summarize(cases_, results, tier):
    return {"total_iterations": sum(r["stats"].get("it", 0) for r in results)}
