"""C15 Step-size control: rejected steps shrink the step and keep the point."""
from pgfmc.drive import grid as G
from pgfmc.drive import monitors as M
from . import _loop as L

ID = "C15"
LEVEL = "model_checking"
RULE = ("(a) scripted-loop model checking (see C12) for the loop's share: lambda carried from one trial to the next, failure => 2*lambda and "
        "unchanged iterate, abort with the dedicated error once lambda >= lamb_max, no trial beyond it; (b) trace conformance over complete real "
        "runs: specs x controller 4 x Newton type 4 x step solver x lamb_max in {16, 1e12} x injected step failures (every k-th factorisation "
        "failing, k in 2..4), a monitor on EVERY pair of consecutive trials: dt_next == 1/lambda_returned exactly; after a rejected/failed trial "
        "the iterate is unchanged and lambda grew; accepted points lie in the box; under Exact control the oracle's implicit-Euler residual of "
        "every accepted iterate is <= newton_tol")
ASSUMPTIONS = ["a step accepted by the controller but vetoed by a filter policy is not a 'rejected step' (only 'iterate unchanged' is demanded there, see C12)",
               "the exact-control residual is recomputed by the dense reference with slack 1e-6 relative"]
CASE_ALARM_S = 300
TIMEOUT_IS_VIOLATION = "a solve with an iteration limit did not return"


def run_table(tier, seed):
    specs = G.core_specs() + G.adversarial_specs()[5:8]
    out = []
    k = 0
    for spec in specs:
        for control in G.R.CONTROLS:
            for newton in G.R.NEWTONS:
                for ss in (("Symmetric", "Standard") if tier == "quick" else G.R.STEP_SOLVERS):
                    for lmax in (16.0, 1e12):
                        for fault in (None, 2, 3) if tier == "quick" else (None, 2, 3, 4):
                            c = {"control": control, "newton": newton, "step_solver": ss, "iteration_limit": 60,
                                 "params": {"lamb_max": lmax}}
                            sc = G.scalings_of(spec, (0, 1))[k % 2]
                            k += 1
                            out.append({"t": "run", "spec": spec, "cfg": c, "sc": sc, "fault": fault})
    # single precision: every controller (exact control must still meet the Newton tolerance up to float32 rounding)
    for spec in specs[:4]:
        for control in G.R.CONTROLS:
            for newton in ("Simplified", "Full"):
                for ss in ("Symmetric", "Standard"):
                    out.append({"t": "run", "spec": spec, "cfg": {"control": control, "newton": newton, "step_solver": ss, "iteration_limit": 60,
                                                                 "params": {"lamb_max": 1e12, "precision": "Single"}}, "sc": None, "fault": None})
    # long runs: thousands of trials per controller (tiny initial steps)
    for control in G.R.CONTROLS:
        out.append({"t": "run", "spec": specs[0], "cfg": {"control": control, "newton": "Simplified", "step_solver": "Symmetric", "iteration_limit": 4000,
                                                          "params": {"lamb_max": 1e12, "lamb_init": 300.0, "lamb_red": 1.0}}, "sc": None, "fault": None})
    for spec in specs[:4]:
        for vi in range(len(G.PARAM_VARIANTS)):
            for control in G.R.CONTROLS:
                for fault in (None, 3):
                    out.append({"t": "run", "spec": spec, "cfg": {"control": control, "newton": "Simplified", "step_solver": "Symmetric", "iteration_limit": 60,
                                                                 "params": {"lamb_max": 1e12}, "pv": vi}, "sc": None, "fault": fault})
    return out


def cases(tier, seed):
    return [dict(c, t="loop") for c in L.cases(tier, seed)] + run_table(tier, seed)


def run_case(case):
    if case["t"] == "loop":
        return L.run_chunk(case, ID)
    from pgfmc.drive.run import FaultLinear, outcome_of

    lf = None
    if case.get("fault"):
        lf = FaultLinear(fail_factor=range(case["fault"], 400, case["fault"]))
    case = G.with_variant(case)
    ctx = G.execute(case, linear_faults=lf)
    if ctx.setup_error is not None:
        return {"outcome": "setup:" + type(ctx.setup_error).__name__, "key": None, "violations": [], "stats": {}}
    # the one-step comparison applies to the plain (non-globalized) Newton variants with a direct linear solver and the default active-set
    # rule (a user-supplied tau rule selects another, equally admissible, active set than the reference)
    viol = M.mon_c15(ctx.rec, ctx.F, ctx.weights, ctx.params, case["cfg"]["control"],
                     fixed_check=case["cfg"]["newton"] != "Globalized" and "active_set_method" not in case["cfg"]["params"])
    rej = sum(1 for t in ctx.rec.trials if not t.accepted)
    return {"outcome": outcome_of(ctx.rec),
            "key": f"{case['spec']['tag']}|{G.cfg_key(case['cfg'])}|{sorted((k, str(v)[:12]) for k, v in case['cfg']['params'].items())}|{case.get('fault')}" if rej else None,
            "violations": viol, "stats": {"run": 1, "trials": len(ctx.rec.trials), "rejected": rej,
                                         "exact_accepted": sum(1 for t in ctx.rec.trials if t.accepted) if case["cfg"]["control"] == "Exact" else 0}}


def summarize(cases_, results, tier):
    m = L.merge(results)
    runs = sum(r["stats"].get("run", 0) for r in results)
    return {"states": m["loop_states"], "transitions": m["loop_transitions"],
            "traces_validated_against_impl": m["loop_executions"] + runs, "evaluations": m["loop_executions"] + runs,
            "loop_executions": m["loop_executions"], "real_runs_trace_checked": runs,
            "trial_pairs_checked": sum(r["stats"].get("trials", 0) for r in results),
            "rejected_or_failed_trials": sum(r["stats"].get("rejected", 0) for r in results),
            "exact_accepted_residuals_checked": sum(r["stats"].get("exact_accepted", 0) for r in results)}


def samples(cases_, results):
    return [L.merge(results)["loop_sample"]]


def vacuity(cases_, results, tier):
    s = summarize(cases_, results, tier)
    out = []
    if s["rejected_or_failed_trials"] < 500:
        out.append("fewer than 500 rejected/failed trials observed")
    if s["exact_accepted_residuals_checked"] < 200:
        out.append("fewer than 200 exact-control acceptances checked")
    if sum(1 for r in results if r["outcome"] == "deliberate:Inverse step size") < 5:
        out.append("the lamb_max abort was reached in fewer than 5 real runs")
    return out
