"""C03 Well-posed convex programs are actually solved."""
import itertools

import numpy as np

from pgfmc.drive import grid as G
from pgfmc.drive import run as R
from pgfmc.model import specs as S

ID = "C03"
LEVEL = "exploration"
RULE = ("the finite class {H in a catalogue of SPD matrices with cond <= 1e3} x {g} x {A in a catalogue of full-row-rank matrices} x ALL "
        "constraint bound-kind tuples x ALL variable-kind tuples x in-bounds starts for n <= 2 (thorough: n <= 3), plus tridiagonal/banded "
        "families with n in {20, 50, 100, 200}, m = n/5, three bound patterns; membership (existence of a feasible point) is decided by the "
        "oracle with an LP (scipy HiGHS), not by the solver; configurations: default, Newton in {Full, ActiveSet}, step solver in {Standard, "
        "Extended, Asymmetric}, Exact control (one factor at a time, as the property states). Oracle: status Optimal within 5000 iterations. "
        "distinct = class members (spec, start, configuration) that have at least one constraint row or finite bound")
ASSUMPTIONS = ["iteration budget 5000", "class members are filtered by LP feasibility; rank of A is by construction of the catalogue",
               "a run is stopped after the budget; the check stops dispatching after 20 violations are known (reported as a cap)"]
CASE_ALARM_S = 900

CONFIGS = [{}, {"newton": "Full"}, {"newton": "ActiveSet"}, {"step_solver": "Standard"}, {"step_solver": "Extended"},
           {"step_solver": "Asymmetric"}, {"control": "Exact"}]


def row_bounds(kind):
    return {"eq0": (0.0, 0.0), "eqoff": (0.75, 0.75), "lower": (-0.5, "inf"), "upper": ("-inf", 0.5), "ranged": (-0.5, 0.25)}[kind]


def dense_members(tier):
    out = []
    ns = (1, 2) if tier == "quick" else (1, 2, 3)
    for n in ns:
        Hs, gs, As = S.SPD[n], S.GVEC[n], S.AROWS[n]
        for hi, H in enumerate(Hs):
            for gi, g in enumerate(gs):
                for ai, A in enumerate([[]] + As):
                    m = len(A)
                    for ks in itertools.product(S.ROW_KINDS, repeat=m):
                        for vk in itertools.product(S.VAR_KINDS, repeat=n):
                            if n == 3 and (hi + gi + ai + S.VAR_KINDS.index(vk[0])) % 4 != 0:
                                continue  # n=3: a quarter of the table (documented cap)
                            rows = []
                            for a, k in zip(A, ks):
                                lo, hi_ = row_bounds(k)
                                rows.append({"a": list(a), "b": 0.0, "lb": lo, "ub": hi_})
                            lb, ub = S.var_bounds(vk, tight=True)
                            out.append({"n": n, "obj": {"H": H, "g": g}, "rows": rows, "var_lb": lb, "var_ub": ub,
                                        "fmt": "coo", "policy": "fresh",
                                        "tag": f"qp|n{n}|H{hi}|g{gi}|A{ai}|{','.join(ks)}|{','.join(vk)}"})
    return out


def feasible(spec):
    from scipy.optimize import linprog

    n = spec["n"]
    inf = float("inf")

    def f(v):
        return inf if v == "inf" else (-inf if v == "-inf" else float(v))

    A_ub, b_ub, A_eq, b_eq = [], [], [], []
    for r in spec["rows"]:
        lo, hi = f(r["lb"]), f(r["ub"])
        if lo == hi:
            A_eq.append(r["a"]); b_eq.append(lo)
        else:
            if np.isfinite(hi):
                A_ub.append(r["a"]); b_ub.append(hi)
            if np.isfinite(lo):
                A_ub.append([-v for v in r["a"]]); b_ub.append(-lo)
    bounds = [(None if f(l) == -inf else f(l), None if f(u) == inf else f(u)) for l, u in zip(spec["var_lb"], spec["var_ub"])]
    res = linprog(np.zeros(n), A_ub=A_ub or None, b_ub=b_ub or None, A_eq=A_eq or None, b_eq=b_eq or None, bounds=bounds, method="highs")
    return res.status == 0


def cases(tier, seed):
    out = []
    members = [sp for sp in dense_members(tier) if feasible(sp)]
    for i, spec in enumerate(members):
        if tier == "quick" and spec["n"] == 2 and i % 3 != seed % 3:
            continue  # quick: one third of the n=2 table (slice VERIF_SEED mod 3); thorough covers all of it
        starts = S.starts(spec["n"], spec["var_lb"], spec["var_ub"], (0, 1, 2) if tier == "thorough" else (1, 2))
        for si, x0 in enumerate(starts):
            if tier == "thorough" and si == 0 and i % 2 == 1:
                continue  # the first start on every second member (bounds the tier to ~15 minutes)
            if tier == "quick":
                cfgs = [CONFIGS[0], CONFIGS[1 + (i + si) % 6]]
            else:
                cfgs = CONFIGS
            for cfg in cfgs:
                sp = dict(spec); sp["x0"] = x0; sp["y0"] = [0.0] * len(spec["rows"])
                out.append({"spec": sp, "cfg": cfg})
            if i % 7 == 0 and si == 0:
                # the same member with a problem that returns its STORED Hessian / Jacobian (CSR, CSC) on every call
                for fmt in ("csr", "csc"):
                    for cfg in (CONFIGS[0], CONFIGS[3], CONFIGS[5]):
                        sp = dict(spec); sp["x0"] = x0; sp["y0"] = [0.0] * len(spec["rows"]); sp["policy"] = "const"; sp["fmt"] = fmt
                        out.append({"spec": sp, "cfg": cfg})
    # very narrow (but not degenerate) intervals: a variable box / a ranged row of width 5e-9 ... 1e-6 (around the activity tolerance)
    for hi, H in enumerate(S.SPD[2]):
        for gi, g in enumerate(S.GVEC[2] + [[2.0, -4.0]]):
            for w in (5e-9, 1e-8, 2e-8, 1e-6):
                for which in ("var", "row"):
                    if which == "var":
                        spn = {"n": 2, "obj": {"H": H, "g": g}, "rows": [], "var_lb": [0.25, "-inf"], "var_ub": [0.25 + w, "inf"]}
                    else:
                        spn = {"n": 2, "obj": {"H": H, "g": g}, "rows": [{"a": [1.0, 1.0], "b": 0.0, "lb": 0.5, "ub": 0.5 + w}], "var_lb": ["-inf", -3.0], "var_ub": ["inf", "inf"]}
                    spn.update(fmt="coo", policy="fresh", tag=f"qp|narrow|{which}|{w:g}|H{hi}|g{gi}")
                    for x0 in ([0.25, 1.0], [0.25 + w, -1.0]):
                        for cfg in (CONFIGS if tier == "thorough" else [CONFIGS[0], CONFIGS[1 + (hi + gi) % 6]]):
                            sp = dict(spn); sp["x0"] = x0; sp["y0"] = [0.0] * len(spn["rows"])
                            out.append({"spec": sp, "cfg": cfg})
    sizes = (20, 50) if tier == "quick" else (20, 50, 100)
    for n in sizes:
        for pat in ("free", "boxed", "mixed"):
            for k in ((0, 2) if tier == "quick" else range(5)):
                spec = S.banded_qp(n, pat, k)
                if not feasible(spec):
                    continue
                for cfg in (CONFIGS if tier == "thorough" or n == 20 else [CONFIGS[0], CONFIGS[6]]):
                    out.append({"spec": spec, "cfg": cfg})
                    sp = dict(spec); sp["x0"] = S.project([(-1.0) ** i * 2.0 for i in range(n)], spec["var_lb"], spec["var_ub"])
                    out.append({"spec": sp, "cfg": cfg})
    return out


def run_case(case):
    from pygradflow.solver import Solver
    from pgfmc.drive.problems import UserProblem

    spec = case["spec"]
    cfg = dict(case["cfg"]); cfg["iteration_limit"] = 5000
    params = R.make_params(cfg)
    prob = UserProblem(spec)
    rec = R.run_solve(prob, params, spec["x0"], spec["y0"], solver=Solver(prob, params))
    viol = []
    oc = R.outcome_of(rec)
    it = rec.result.iterations if rec.result is not None else -1
    if oc != "Optimal":
        viol.append({"sig": f"C03|not_solved|{oc}", "msg": f"class member {spec['tag']} start {spec['x0'][:4]} config {case['cfg']} ended {oc} after {it} iterations"})
    nontrivial = bool(spec["rows"]) or any(v not in ("inf", "-inf") for v in spec["var_lb"] + spec["var_ub"])
    return {"outcome": oc, "key": f"{spec['tag']}|{spec['x0'][:3]}|{case['cfg']}|{spec.get('policy')}|{spec.get('fmt')}" if nontrivial else None, "violations": viol, "stats": {"it": it}}


def summarize(cases_, results, tier):
    its = [r["stats"].get("it", 0) for r in results]
    return {"max_iterations": max(its + [0]), "mean_iterations": float(np.mean(its)) if its else 0.0,
            "banded_instances": sum(1 for c in cases_ if c["spec"]["tag"].startswith("banded"))}
