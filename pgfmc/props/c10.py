"""C10 A solve is a deterministic function of its inputs, independent of history."""
import itertools
import logging
import multiprocessing as mp

import numpy as np

ID = "C10"
LEVEL = "model_checking"
RULE = ("BFS over solve histories: alphabet of operations {solve with the shared default Params object, solve with Exact control + objective "
        "filter, re-solve on the most recent solver object, solve with GradJac scaling, solve with derivative check, solve of a problem with an "
        "unsymmetric Hessian (module-level warn-once flags), solve ending in the deliberate step-size error, solve aborted by an exception from a user callback, [thorough: derivative check, DEBUG-logged solve, "
        "flow-integration solve, solve with DistanceRatio+DualNorm on a second problem]}; ALL histories up to depth 3 over the quick alphabet (quick) / up to depth 3 over the full alphabet plus depth 4 over the first six operations of the quick alphabet (thorough), each "
        "history executed in a fresh process; differential oracle: the digest (every trial step, status, x, y, d, counters) of every solve in a "
        "history equals the digest of the same operation executed alone in a fresh process. states = histories (no merging: interpreter state "
        "cannot be hashed, so no abstraction is claimed); transitions = operations executed")
ASSUMPTIONS = ["a process forked from the parent that has imported pygradflow but never solved is 'fresh'",
               "digest = sha256 over the bytes of every trial (inputs, rho, dt, lambda, accepted, outputs) and of the result"]
FRESH = True
CASE_ALARM_S = 300
OPS_QUICK = ["default", "exact_filter", "resolve", "scaled", "scaled_b", "lamerr", "cb_abort", "pareto", "nostart_then_y"]
OPS_THOROUGH = OPS_QUICK + ["unsym", "derivcheck", "debug", "integration", "second", "rcond_single", "exp_far", "singular", "banded", "longlp", "single_tiny", "gradjac_empty"]


_SHARED = {}


def ops(tier):
    return OPS_QUICK if tier == "quick" else OPS_THOROUGH


def op_setup(op):
    """(problem, params, x0, y0, log level) of an operation that creates a fresh solver."""
    import scipy.sparse as sps
    from pygradflow.solver import Solver
    from pgfmc.drive import grid as G
    from pgfmc.drive import run as R
    from pgfmc.drive.problems import UserProblem

    specs = G.core_specs()
    lvl = None
    if op == "default":
        spec = specs[0]
        params = Solver.__init__.__defaults__[0]  # the shared default Params object
        prob = UserProblem(spec)
    elif op == "exact_filter":
        spec = specs[2]
        params = R.make_params({"control": "Exact", "penalty": "ObjectiveFilter", "iteration_limit": 60})
        prob = UserProblem(spec)
    elif op in ("scaled", "scaled_b"):
        # both operations use the SAME problem object (kept per process) with different scaling points
        spec = specs[3]
        sc = dict(G.scalings_of(spec, (4,))[0])
        if op == "scaled_b":
            sc["at"] = [8.0, -0.03125]
        params = R.make_params({"iteration_limit": 60}, sc)
        if "shared" not in _SHARED:
            _SHARED["shared"] = UserProblem(spec)
        prob = _SHARED["shared"]
    elif op == "pareto":
        spec = specs[2]
        params = R.make_params({"iteration_limit": 60, "penalty": "ParetoDecrease", "params": {"rho": 1e-2}})
        prob = UserProblem(spec)
    elif op == "derivcheck":
        spec = specs[0]
        params = R.make_params({"iteration_limit": 60, "deriv_check": "CheckAll", "penalty": "LagrangianFilter"})
        prob = UserProblem(spec)
    elif op == "unsym":
        spec = specs[2]

        class Upper(UserProblem):
            def lag_hess(self, x, y):
                return sps.triu(super().lag_hess(x, y)).tocoo()

        prob = Upper(spec)
        params = R.make_params({"iteration_limit": 40, "control": "ResiduumRatio"})
    elif op == "lamerr":
        spec = specs[1]
        params = R.make_params({"iteration_limit": 60, "params": {"lamb_max": 4.0, "lamb_init": 2.0}})
        prob = UserProblem(spec)
    elif op == "cb_abort":
        # a solve that is left by an exception raised from a user callback at the 4th step
        spec = specs[0]
        params = R.make_params({"iteration_limit": 60, "penalty": "ObjectiveFilter"})
        prob = UserProblem(spec)
    elif op == "rcond_single":
        # single precision + condition estimates on a badly scaled problem: the estimate's final products overflow
        from pgfmc.model import specs as S
        spec = G.raw(2, {"rosen": True}, [], ["-inf", "-inf"], ["inf", "inf"], [-1.2, 1.0], "rosenbrock_classic_start")
        params = R.make_params({"iteration_limit": 300, "newton": "Full", "step_solver": "Standard",
                                "params": {"report_rcond": True, "precision": "Single"}})
        prob = UserProblem(spec)
    elif op == "exp_far":
        # exp(x) - x started far to the left: trial points overflow, which must be handled the same way after any history
        spec = G.raw(1, {"exp": [1.0], "g": [-1.0]}, [], ["-inf"], ["inf"], [-1200.0], "exp_far_start")
        params = R.make_params({"iteration_limit": 80})
        prob = UserProblem(spec)
    elif op == "singular":
        # concave objective with Hessian -1 and lambda = 1: the first step matrix is exactly singular (the factorisation fails, the step
        # size is reduced); whatever that failure leaves behind must not reach later solves
        spec = G.raw(2, {"H": [[-1.0, 0.0], [0.0, -1.0]], "g": [0.25, -0.5]}, [], [-1.0, -2.0], [1.0, 1.5], [0.5, 0.25], "concave_singular_first_step")
        params = R.make_params({"iteration_limit": 40, "params": {"lamb_init": 1.0}})
        prob = UserProblem(spec)
    elif op == "longlp":
        # linear objective over a very long box with default parameters: the step size grows for many iterations (lambda far below 1e-7)
        spec = G.raw(2, {"H": [[0.0, 0.0], [0.0, 0.0]], "g": [-1.0, -1.0]}, [], [0.0, 0.0], [1e8, 3e8], [0.0, 0.0], "long_lp_box")
        params = R.make_params({"iteration_limit": 200})
        prob = UserProblem(spec)
    elif op == "single_tiny":
        # an unrelated tiny solve in single precision
        spec = G.raw(1, {"H": [[2.0]], "g": [-2.0]}, [], ["-inf"], ["inf"], [0.0], "tiny_single")
        params = R.make_params({"iteration_limit": 30, "params": {"precision": "Single"}})
        prob = UserProblem(spec)
    elif op == "gradjac_empty":
        # GradJac scaling computed at a point where a constraint row has no stored Jacobian entry (pattern = current non-zeros)
        from pgfmc.model import specs as S
        spec = dict(S.mk(2, "qdiag", [("sphere", "ranged"), ("affine", "upper")], ["boxed", "free"]))
        spec["nzpat"] = True
        params = R.make_params({"iteration_limit": 40}, {"type": "GradJac", "at": [0.0, 0.0], "dual": [1.0, 1.0]})
        prob = UserProblem(spec)
    elif op == "banded":
        # 30 variables, 6 rows: large enough for fill-reducing orderings of the factorisation to matter
        from pgfmc.model import specs as S
        spec = S.banded_qp(30, "mixed", 0)
        params = R.make_params({"iteration_limit": 40})
        prob = UserProblem(spec)
    elif op == "debug":
        spec = specs[3]
        params = R.make_params({"iteration_limit": 30, "display_interval": 0.0, "penalty": "DualEquilibration"})
        prob = UserProblem(spec)
        lvl = logging.DEBUG
    elif op == "second":
        spec = specs[5]
        params = R.make_params({"iteration_limit": 60, "newton": "Full", "step_solver": "Standard"})
        prob = UserProblem(spec)
    else:
        raise ValueError(op)
    return spec, prob, params, lvl


def global_state():
    """Process-global state a library must leave alone."""
    import logging
    import random
    import warnings

    return {
        "numpy error mode": dict(np.geterr()),
        "numpy print options": {k: repr(v) for k, v in np.get_printoptions().items()},
        "numpy global random state": hash(np.random.get_state()[1].tobytes()),
        "python random state": hash(random.getstate()),
        "root logger level": logging.getLogger().level,
        "gradflow logger level": logging.getLogger("gradflow").level,
        "number of warning filters": len(warnings.filters),
    }


def run_history(hist):
    """Executes the operations of `hist` in this process; returns the digest of each."""
    from pgfmc.drive import run as R

    # modules that are imported lazily by some operations register warning filters etc. when first imported: import them before the first
    # snapshot, so that only what a SOLVE does is observed
    import scipy.integrate, scipy.optimize, scipy.sparse.linalg  # noqa
    import pygradflow.integration.integration_solver  # noqa

    out = []
    last = None  # (solver, spec, params, lvl, op)
    gs0 = global_state()
    for op in hist:
        gs = global_state()
        if gs != gs0:
            changed = [k for k in gs if gs[k] != gs0[k]]
            out.append(("GLOBAL-STATE:" + ",".join(changed), f"{ {k: (gs0[k], gs[k]) for k in changed} }"))
            gs0 = gs
        if op == "integration":
            out.append(integration_digest())
            continue
        if op in ("nostart_y", "nostart_then_y"):
            # solve() without a start (origin projected onto the box), optionally with starting multipliers; in "nostart_then_y" the same
            # solver object has been solved without multipliers before
            from pgfmc.drive import grid as G
            from pgfmc.drive.problems import UserProblem

            spec = G.core_specs()[3]
            prob = UserProblem(spec)
            params = R.make_params({"iteration_limit": 60})
            solver = R.RecSolver(prob, params)
            y0 = np.linspace(0.75, -0.5, max(len(spec["rows"]), 1))[: len(spec["rows"])]
            if op == "nostart_then_y":
                R.run_solve(prob, params, None, None, solver=solver, errstate=False)
            rec = R.run_solve(prob, params, None, y0, solver=solver, errstate=False)
            out.append(("nostart_y" if op == "nostart_y" else "resolve:nostart_y", rec.digest))
            last = None
            continue
        if op == "resolve":
            if last is None:
                spec, prob, params, lvl = op_setup("default")
                last = (R.RecSolver(prob, params), spec, prob, params, lvl, "default")
                rec0 = R.run_solve(prob, params, spec["x0"], spec["y0"], solver=last[0], log_level=lvl, errstate=False)
                # a re-solve needs a first solve; its digest is not reported
            solver, spec, prob, params, lvl, base = last
            rec = R.run_solve(prob, params, spec["x0"], spec["y0"], solver=solver, log_level=lvl, errstate=False)
            out.append(("resolve:" + ("cb_abort_plain" if base == "cb_abort" else base), rec.digest))
            continue
        spec, prob, params, lvl = op_setup(op)
        solver = R.RecSolver(prob, params)
        pre = None
        if op == "cb_abort":
            from pygradflow.callbacks import CallbackType

            cnt = [0]

            def bomb(a, b, acc):
                cnt[0] += 1
                if cnt[0] == 4:
                    raise RuntimeError("user callback aborts the solve")

            handle = solver.callbacks.register(CallbackType.ComputedStep, bomb)
        rec = R.run_solve(prob, params, spec["x0"], spec["y0"], solver=solver, log_level=lvl, errstate=False)
        if op == "cb_abort":
            solver.callbacks.unregister(handle)  # a later re-solve on this solver runs without the aborting callback
        last = (solver, spec, prob, params, lvl, op)
        out.append((op, rec.digest))
    gs = global_state()
    if gs != gs0:
        changed = [k for k in gs if gs[k] != gs0[k]]
        out.append(("GLOBAL-STATE:" + ",".join(changed), f"{ {k: (gs0[k], gs[k]) for k in changed} }"))
    return out


def integration_digest():
    import hashlib
    import signal
    from pygradflow.integration.integration_solver import IntegrationSolver
    from pgfmc.drive import run as R
    from pgfmc.drive.problems import UserProblem
    from pgfmc.model import specs as S

    spec = S.mk(2, "qin", [("affine", "eq0")], ["free", "free"], tight=False)
    params = R.make_params({"params": {"rho": 1e-2}})
    try:
        with np.errstate(all="ignore"):
            res = IntegrationSolver(UserProblem(spec), params).solve(np.array(spec["x0"]), np.array(spec["y0"]))
        h = hashlib.sha256(res.status.name.encode() + np.asarray(res.x).tobytes() + np.asarray(res.y).tobytes() + np.asarray(res.d).tobytes())
        return ("integration", h.hexdigest()[:20])
    except Exception as e:
        if type(e).__name__ == "CaseTimeout":
            raise
        return ("integration", "exc:" + type(e).__name__)


def _alone_plain():
    """Reference for a re-solve after the aborted solve: the same solve without the aborting callback, alone."""
    import warnings
    from pgfmc.drive import run as R

    warnings.filterwarnings("ignore")
    spec, prob, params, lvl = op_setup("cb_abort")
    return R.run_solve(prob, params, spec["x0"], spec["y0"], solver=R.RecSolver(prob, params)).digest


def _alone(op):
    import warnings
    warnings.filterwarnings("ignore")
    return run_history([op])[-1][1]


def references(tier):
    ctx = mp.get_context("fork")
    refs = {}
    for op in ops(tier):
        if op in ("resolve", "nostart_then_y"):
            continue
        with ctx.Pool(1, maxtasksperchild=1) as pool:
            refs[op] = pool.apply(_alone, (op,))
    with ctx.Pool(1, maxtasksperchild=1) as pool:
        refs["cb_abort_plain"] = pool.apply(_alone_plain)
    with ctx.Pool(1, maxtasksperchild=1) as pool:
        refs["nostart_y"] = pool.apply(_alone, ("nostart_y",))
    refs.pop("nostart_then_y", None)
    return refs


PAIR_OPS = ["rcond_single", "exp_far", "default", "singular", "banded", "longlp", "single_tiny", "gradjac_empty"]


def cases(tier, seed):
    refs = references(tier)
    if tier == "quick":
        # a second, small alphabet (depth 2) for state that one kind of solve leaves behind for another
        ctx = mp.get_context("fork")
        for op in PAIR_OPS:
            if op not in refs:
                with ctx.Pool(1, maxtasksperchild=1) as pool:
                    refs[op] = pool.apply(_alone, (op,))
    out = []
    # quick: all histories of depth <= 3 over the quick alphabet; thorough: depth <= 3 over the full alphabet plus depth 4 over the quick one
    for d in range(1, 4):
        for hist in itertools.product(ops(tier), repeat=d):
            out.append({"hist": list(hist), "refs": refs})
    if tier != "quick":
        for hist in itertools.product(OPS_QUICK[:6], repeat=4):
            out.append({"hist": list(hist), "refs": refs})
    if tier == "quick":
        for d in (1, 2):
            for hist in itertools.product(PAIR_OPS, repeat=d):
                out.append({"hist": list(hist), "refs": refs})
    return out


def run_case(case):
    refs = case["refs"]
    res = run_history(case["hist"])
    viol = []
    for i, (op, dg) in enumerate(res):
        if op.startswith("GLOBAL-STATE:"):
            viol.append({"sig": "C10|global_state|" + op.split(":", 1)[1], "msg": f"a solve of history {case['hist']} changed process-global state: {dg}",
                         "detail": {"hist": case["hist"]}})
            break
        base = op.split(":")[1] if op.startswith("resolve:") else op
        if dg != refs[base]:
            kind = "resolve" if op.startswith("resolve:") else "fresh_solver"
            viol.append({"sig": f"C10|{kind}|{base}", "msg": f"operation {i} ({op}) of history {case['hist']} gave digest {dg}, alone in a fresh process {refs[base]}",
                         "detail": {"hist": case["hist"], "index": i}})
            break
    return {"outcome": "independent" if not viol else "violating", "key": "|".join(case["hist"]) if len(case["hist"]) > 1 else None,
            "violations": viol, "stats": {"ops": len(res)}}


def summarize(cases_, results, tier):
    n_ops = sum(r["stats"].get("ops", 0) for r in results)
    return {"states": len(cases_) + 1, "transitions": n_ops, "traces_validated_against_impl": len(cases_), "evaluations": n_ops,
            "depth": 3 if tier == "quick" else 4, "depth4_alphabet": None if tier == "quick" else OPS_QUICK[:6], "alphabet": ops(tier)}


def samples(cases_, results):
    return [{"history": cases_[-1]["hist"], "reference_digests": cases_[-1]["refs"]}]
