"""C16 The penalty parameter is positive and never decreases."""
from pgfmc.drive import grid as G
from pgfmc.drive import monitors as M
from . import _loop as L

ID = "C16"
LEVEL = "model_checking"
RULE = ("(a) scripted-loop model checking (see C12) of the solver's adoption rule: with a scripted policy answering same / x10 / veto, the rho "
        "passed to every trial equals the reference loop's (policy value adopted on acceptance only); (b) trace conformance over complete real "
        "runs: specs x all 6 penalty policies x starting multipliers {0, 0.5, 1e3} x rho0 in {1e-8, 1, 1e4} x controller 4: a monitor on the rho "
        "of EVERY trial: positive, non-decreasing, constant under the constant policy, and under DualNorm <= max(rho0, largest |y| of any accepted "
        "iterate so far) and <= 10x per accepted step")
ASSUMPTIONS = ["multiplier norms are taken in the internal (scaled) units the policy sees", "horizon 80 iterations"]
CASE_ALARM_S = 300


def run_table(tier, seed):
    specs = G.core_specs() + G.adversarial_specs()[:3]
    out = []
    k = 0
    for spec in specs:
        m = len(spec["rows"])
        for pen in G.R.PENALTIES:
            for y0 in (0.0, 0.5, 1e3):
                for rho0 in (1e-8, 1.0, 1e4):
                    for control in (G.R.CONTROLS if tier == "thorough" else ["DistanceRatio", "Exact"]):
                        c = {"penalty": pen, "control": control, "iteration_limit": 80, "params": {"rho": rho0}}
                        sp = dict(spec); sp["y0"] = [y0 * (-1) ** i for i in range(m)]
                        sc = G.scalings_of(spec, (0, 1))[k % 2]
                        k += 1
                        out.append({"t": "run", "spec": sp, "cfg": c, "sc": sc})
    # tiny initial penalties (below the machine epsilon of the working precision) and single precision
    from pygradflow.params import Precision
    for spec in specs[:3]:
        for pen in G.R.PENALTIES:
            out.append({"t": "run", "spec": spec, "cfg": {"penalty": pen, "iteration_limit": 80, "params": {"rho": 1e-17}}, "sc": None})
            out.append({"t": "run", "spec": spec, "cfg": {"penalty": pen, "iteration_limit": 80, "params": {"rho": 1e-8, "precision": "Single"}}, "sc": None})
    # every penalty policy with every step-size controller, and with non-default tolerances / gains
    for spec in specs[:3]:
        for pen in G.R.PENALTIES:
            for ctl in ("Fixed", "ResiduumRatio"):
                out.append({"t": "run", "spec": spec, "cfg": {"penalty": pen, "control": ctl, "iteration_limit": 80, "params": {"rho": 1e-3}}, "sc": None})
            for vi in range(len(G.PARAM_VARIANTS)):
                out.append({"t": "run", "spec": spec, "cfg": {"penalty": pen, "iteration_limit": 80, "params": {"rho": 1e-3}, "pv": vi}, "sc": None})
    # penalties of ordinary and large size from the start (1, 10, 1e3)
    for spec in specs[:3]:
        for pen in G.R.PENALTIES:
            for rho0 in (1.0, 10.0, 1e3):
                for ctl in ("DistanceRatio", "Fixed"):
                    out.append({"t": "run", "spec": spec, "cfg": {"penalty": pen, "control": ctl, "iteration_limit": 80, "params": {"rho": rho0}}, "sc": None})
    # long runs (thousands of accepted steps): every policy, fixed small steps
    for pen in G.R.PENALTIES:
        out.append({"t": "run", "spec": specs[0], "cfg": {"penalty": pen, "control": "Fixed", "iteration_limit": 4000 if tier == "quick" else 12000,
                                                          "params": {"rho": 1e-3, "lamb_init": 300.0}}, "sc": None})
    for spec in G.exact_feasibility_specs():
        for pen in G.R.PENALTIES:
            for rho0 in (1e-8, 1e-3):
                for ctl in ("DistanceRatio", "Fixed"):
                    out.append({"t": "run", "spec": spec, "cfg": {"penalty": pen, "control": ctl, "iteration_limit": 80, "params": {"rho": rho0}}, "sc": None})
    # norm-type family: several near-equal multipliers x a fine logarithmic grid of rho0 (8 values per decade)
    grid = [10.0 ** (e / 8.0) for e in range(-32, 1)] if tier == "thorough" else [10.0 ** (e / 8.0) for e in range(-24, -7)]
    for spec in G.multi_multiplier_specs():
        for rho0 in grid:
            for pen in ("DualNorm", "DualEquilibration"):
                out.append({"t": "run", "spec": spec, "cfg": {"penalty": pen, "iteration_limit": 80, "params": {"rho": rho0}}, "sc": None})
    return out


def cases(tier, seed):
    return [dict(c, t="loop") for c in L.cases(tier, seed)] + run_table(tier, seed)


def run_case(case):
    if case["t"] == "loop":
        return L.run_chunk(case, ID)
    from pgfmc.drive.run import outcome_of

    case = G.with_variant(case)
    ctx = G.execute(case)
    if ctx.setup_error is not None:
        return {"outcome": "setup:" + type(ctx.setup_error).__name__, "key": None, "violations": [], "stats": {}}
    viol = M.mon_c16(ctx.rec, ctx.params, case["cfg"]["penalty"])
    rhos = {t.rho for t in ctx.rec.trials}
    return {"outcome": outcome_of(ctx.rec),
            "key": f"{case['spec']['tag']}|{case['cfg']['penalty']}|{case['cfg'].get('control')}|{case['spec']['y0']}|{sorted((k, str(v)[:12]) for k, v in case['cfg']['params'].items())}" if len(rhos) > 1 else None,
            "violations": viol, "stats": {"run": 1, "trials": len(ctx.rec.trials), "rho_changes": max(0, len(rhos) - 1)}}


def summarize(cases_, results, tier):
    m = L.merge(results)
    runs = sum(r["stats"].get("run", 0) for r in results)
    return {"states": m["loop_states"], "transitions": m["loop_transitions"],
            "traces_validated_against_impl": m["loop_executions"] + runs, "evaluations": m["loop_executions"] + runs,
            "loop_executions": m["loop_executions"], "real_runs_trace_checked": runs,
            "trials_checked": sum(r["stats"].get("trials", 0) for r in results),
            "penalty_changes_observed": sum(r["stats"].get("rho_changes", 0) for r in results)}


def samples(cases_, results):
    return [L.merge(results)["loop_sample"]]


def vacuity(cases_, results, tier):
    s = summarize(cases_, results, tier)
    return [] if s["penalty_changes_observed"] >= 100 else ["fewer than 100 penalty changes observed"]
