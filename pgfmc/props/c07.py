"""C07 Failures at trial points are survived and never accepted."""
import numpy as np

from pgfmc.drive import grid as G
from pgfmc.drive import monitors as M
from pgfmc.drive import run as R

ID = "C07"
LEVEL = "fault_enumeration"
RULE = ("for each (spec, step solver, controller, Newton type) a fault-free run counts the callback evaluations per kind and the "
        "factorisations / solves; then EVERY position of EVERY kind (objective, gradient, constraints, Jacobian, Hessian, factorisation, solve) "
        "gets one transient fault (non-finite value / LinearSolverError), positions at the starting point included; plus region faults (NaN inside "
        "a ball / half-space not containing x0) and, thorough, all pairs of positions from a covering subset (2 faults). Oracle per run: normal "
        "status or the deliberate step-size error (initial-point error for starting-point positions); the faulty trial is not accepted, returns the "
        "unchanged iterate and doubles lambda; no accepted iterate lies in a fault region; finite x,y,d; Optimal results pass the C01 oracle. "
        "distinct = (combo, kind, position) whose fault actually fired")
ASSUMPTIONS = ["position cap per kind: 25 (quick) / 60 (thorough); runs are short (horizon 40), caps hit are reported in coverage",
               "Globalized Newton is excluded (its own deliberate line-search error is outside this property's outcome list)",
               "display off: every post-start evaluation happens inside a step computation"]
CASE_ALARM_S = 120
KINDS = ["obj", "grad", "cons", "jac", "hess"]
H = 40
CAPPED = False

REGIONS = [
    {"kind": "ball", "c": [0.9, 0.9], "r": 0.6},
    {"kind": "ball", "c": [-0.4, 0.6], "r": 0.35},
    {"kind": "half", "a": [1.0, 0.0], "b": 0.6},
    {"kind": "half", "a": [-1.0, -1.0], "b": 0.9},
]


class FaultSolver(R.RecSolver):
    fp = None
    fl = None

    def _compute_step(self, controller, iterate, rho, dt, display, timer):
        if not self.trials:
            self.start_counts = dict(self.fp.counts) if self.fp is not None else {}
        n0 = (len(self.fp.fired) if self.fp is not None else 0) + (len(self.fl.fired) if self.fl is not None else 0)
        res = super()._compute_step(controller, iterate, rho, dt, display, timer)
        n1 = (len(self.fp.fired) if self.fp is not None else 0) + (len(self.fl.fired) if self.fl is not None else 0)
        self.trials[-1].failed = n1 > n0
        return res


def combos(tier):
    specs = [G.core_specs()[0], G.core_specs()[2], G.core_specs()[3]]
    out = []
    if tier == "quick":
        for spec in specs:
            for ss in R.STEP_SOLVERS:
                out.append((spec, ss, "DistanceRatio", "Simplified"))
            for ctl in R.CONTROLS[1:]:
                out.append((spec, "Symmetric", ctl, "Simplified"))
            out.append((spec, "Standard", "Exact", "Full"))
    else:
        for si_, spec in enumerate(specs + [G.core_specs()[1]]):
            for ss in R.STEP_SOLVERS:
                for ctl in R.CONTROLS:
                    for ni_, nt in enumerate(("Simplified", "Full", "ActiveSet")):
                        if (si_ + ni_) % 2 == 1:
                            continue  # half of the (spec, Newton type) table (bounds the tier)
                        out.append((spec, ss, ctl, nt))
    return out


class FailingFactory:
    """A user-supplied step-solver factory (Params.step_solver) that builds the configured built-in solver and reports
    failure (StepSolverError) on its k-th calls."""

    def __init__(self, fail, fl):
        self.fail, self.fl, self.n = set(fail), fl, 0

    def __call__(self, problem, params, iterate, dt, rho):
        from pygradflow.step.solver import (AsymmetricStepSolver, ExtendedStepSolver, StandardStepSolver,
                                            SymmetricStepSolver)
        from pygradflow.step.step_solver_error import StepSolverError

        self.n += 1
        if self.n in self.fail:
            self.fl.fired.append(("factory", self.n))
            raise StepSolverError("user step solver factory failed")
        cls = {"Standard": StandardStepSolver, "Extended": ExtendedStepSolver, "Symmetric": SymmetricStepSolver,
               "Asymmetric": AsymmetricStepSolver}[params.step_solver_type.name]
        return cls(problem, params, iterate, dt, rho)


def run_one(spec, cfg, sc, faults=(), region=None, lin_factor=(), lin_solve=(), region_kinds=None, factory=None):
    from pgfmc.drive.problems import FaultProblem

    holder = {}

    def wrap(p):
        holder["fp"] = FaultProblem(p, faults=faults, region=region, region_kinds=region_kinds)
        return holder["fp"]

    fl = R.FaultLinear(fail_factor=lin_factor, fail_solve=lin_solve)

    def pre(solver):
        solver.fp = holder["fp"]
        solver.fl = fl
        holder["construct_counts"] = dict(holder["fp"].counts)
        if factory is not None:
            holder["factory"] = solver.params.step_solver = FailingFactory(factory, fl)

    ctx = G.execute({"spec": spec, "cfg": cfg, "sc": sc}, problem_wrap=wrap, solver_cls=FaultSolver, linear_faults=fl, pre=pre)
    ctx.fp = holder.get("fp")
    ctx.fl = fl
    ctx.construct_counts = holder.get("construct_counts", {})
    ctx.factory = holder.get("factory")
    return ctx


def cfg_of(ss, ctl, nt):
    return {"step_solver": ss, "control": ctl, "newton": nt, "iteration_limit": H}


def cases(tier, seed):
    global CAPPED
    cap = 25 if tier == "quick" else 60
    out = []
    for ci, (spec, ss, ctl, nt) in enumerate(combos(tier)):
        cfg = cfg_of(ss, ctl, nt)
        sc = G.scalings_of(spec, (0, 1))[ci % 2]
        base = run_one(spec, cfg, sc)
        counts = dict(base.fp.counts)
        c0 = base.construct_counts
        nf, ns = base.fl.n_factor, base.fl.n_solve
        for kind in KINDS:
            lo = c0.get(kind, 0) + 1
            hi = counts[kind]
            if hi - lo + 1 > cap:
                CAPPED = True
                hi = lo + cap - 1
            for k in range(lo, hi + 1):
                out.append({"spec": spec, "cfg": cfg, "sc": sc, "f": [[kind, k]]})
        for k in range(1, min(nf, cap) + 1):
            out.append({"spec": spec, "cfg": cfg, "sc": sc, "lf": [k]})
        for k in range(1, min(ns, cap) + 1):
            out.append({"spec": spec, "cfg": cfg, "sc": sc, "ls": [k]})
        if ci % 3 == 0:
            # with report_rcond the condition estimator issues many more solves (also transposed ones): each may fail
            cfg_r = dict(cfg); cfg_r["params"] = {"report_rcond": True}
            base_r = run_one(spec, cfg_r, sc)
            for k in range(1, min(base_r.fl.n_solve, 2 * cap) + 1):
                out.append({"spec": spec, "cfg": cfg_r, "sc": sc, "ls": [k], "base_digest": base_r.rec.digest})
        if nf > cap or ns > cap:
            CAPPED = True
        if ci % 3 == 1:
            # non-default step-size parameters (lamb_red = 1: never enlarge; lamb_inc = 1.25): the first evaluation faults again
            cfg_p = dict(cfg); cfg_p["params"] = {"lamb_red": 1.0, "lamb_inc": 1.25}
            base_p = run_one(spec, cfg_p, sc)
            for kind in KINDS:
                lo = base_p.construct_counts.get(kind, 0) + 1
                for k in range(lo, min(base_p.fp.counts[kind], lo + 11) + 1):
                    out.append({"spec": spec, "cfg": cfg_p, "sc": sc, "f": [[kind, k]]})
            for k in range(1, min(base_p.fl.n_factor, 8) + 1):
                out.append({"spec": spec, "cfg": cfg_p, "sc": sc, "lf": [k]})
        if ci % 3 == 2 or ci == 0:
            # every iteration displayed (display_interval = 0): the rows of failed attempts are formatted as well
            cfg_d = dict(cfg); cfg_d["display_interval"] = 0.0
            base_d = run_one(spec, cfg_d, sc)
            for kind in KINDS:
                lo = base_d.construct_counts.get(kind, 0) + 1
                for k in range(lo, min(base_d.fp.counts[kind], lo + 11) + 1):
                    out.append({"spec": spec, "cfg": cfg_d, "sc": sc, "f": [[kind, k]]})
            for k in range(1, min(base_d.fl.n_factor, 8) + 1):
                out.append({"spec": spec, "cfg": cfg_d, "sc": sc, "lf": [k]})
        # a user-supplied step-solver factory that reports failure on its k-th call (StepSolverError while a trial is set up)
        base_f = run_one(spec, cfg, sc, factory=())
        for k in range(1, min(base_f.factory.n, cap) + 1):
            out.append({"spec": spec, "cfg": cfg, "sc": sc, "sf": [k], "plain_digest": base.rec.digest, "factory_digest": base_f.rec.digest})
        for ri, reg in enumerate(REGIONS):
            out.append({"spec": spec, "cfg": cfg, "sc": sc, "region": reg})
        # a function that is not defined AT the starting point (persistent, one kind at a time): dedicated initial-point error
        for kind in KINDS:
            out.append({"spec": spec, "cfg": cfg, "sc": sc, "start_kind": kind})
        # regions placed on the fault-free trajectory: a ball around the k-th accepted iterate (user space)
        acc = [t.it_out for t in base.rec.trials if t.accepted]
        vw = np.array(base.weights["vw"], dtype=int) if base.weights else np.zeros(spec["n"], dtype=int)
        for k in (1, 3, 6, len(acc) - 1):
            if 0 <= k < len(acc):
                xu = np.ldexp(acc[k].x[: spec["n"]], -vw)
                for rad in (0.02, 0.2):
                    reg = {"kind": "ball", "c": [float(v) for v in xu], "r": rad}
                    if not in_region(reg, spec["x0"]):
                        out.append({"spec": spec, "cfg": cfg, "sc": sc, "region": reg})
        if tier == "thorough":
            # two faults: all pairs from a covering subset of positions (first 6 post-start positions of each kind + factorisations)
            pos = []
            for kind in KINDS:
                lo = c0.get(kind, 0) + 1
                pos += [("p", kind, k) for k in range(lo + 3, min(lo + 7, counts[kind] + 1))]
            pos += [("lf", None, k) for k in range(2, min(5, nf + 1))]
            for i in range(len(pos)):
                for j in range(i + 1, len(pos)):
                    a, b = pos[i], pos[j]
                    c = {"spec": spec, "cfg": cfg, "sc": sc, "f": [], "lf": []}
                    for t in (a, b):
                        if t[0] == "p":
                            c["f"].append([t[1], t[2]])
                        else:
                            c["lf"].append(t[2])
                    out.append(c)
    return out


def in_region(reg, x):
    x = np.asarray(x)
    if reg["kind"] == "ball":
        return float(np.linalg.norm(x[: len(reg["c"])] - np.array(reg["c"]))) < reg["r"]
    return float(np.dot(reg["a"], x[: len(reg["a"])])) > reg["b"]


def run_case(case):
    spec, cfg, sc = case["spec"], case["cfg"], case["sc"]
    faults = [tuple(f) for f in case.get("f", [])]
    if case.get("start_kind"):
        reg = {"kind": "ball", "c": [float(v) for v in spec["x0"]], "r": 1e-9}
        ctx = run_one(spec, cfg, sc, region=reg, region_kinds=[case["start_kind"]])
        rec = ctx.rec
        oc = R.outcome_of(rec)
        viol = []
        if ctx.fp.fired and not (rec.exc is not None and rec.exc["msg"].startswith("Failed to evaluate initial iterate")):
            what = (rec.exc["cls"] + ":" + rec.exc["msg"][:40]) if rec.exc else oc
            viol.append(M.V(f"C07|start_point_undefined|{case['start_kind']}|{what.split(':')[0]}",
                            f"{case['start_kind']} is not defined at the starting point, but solve() gave {what} instead of the initial-point error"))
        return {"outcome": "startpoint:" + oc, "key": f"{spec['tag']}|{G.cfg_key(cfg)}|startpoint|{case['start_kind']}" if ctx.fp.fired else None,
                "violations": viol, "stats": {"fired": len(ctx.fp.fired)}}
    region = case.get("region")
    if region is not None and in_region(region, spec["x0"]):
        return {"outcome": "region-contains-start", "key": None, "violations": [], "stats": {}}
    ctx = run_one(spec, cfg, sc, faults=faults, region=region, lin_factor=case.get("lf", ()), lin_solve=case.get("ls", ()), factory=case.get("sf"))
    rec = ctx.rec
    viol = []
    if case.get("sf") and case["plain_digest"] != case["factory_digest"]:
        viol.append(M.V("C07|factory|delegate_differs", "a user step-solver factory that builds the configured built-in solver changes the run"))
    fired = list(ctx.fp.fired) + list(ctx.fl.fired)
    tag = "region" if region else ("factory" if case.get("sf") else ("linear" if (case.get("lf") or case.get("ls")) and not faults else "eval"))
    oc = R.outcome_of(rec)
    solver = rec.solver
    start_counts = getattr(solver, "start_counts", None)
    at_start = False
    if faults and not rec.trials:
        at_start = True
    elif faults and start_counts is not None:
        at_start = any(k <= start_counts.get(kind, 0) for kind, k in faults) and any(
            (kind, k) == (f[0], f[1]) and k <= start_counts.get(kind, 0) for f in ctx.fp.fired for kind, k in faults)
    if not fired:
        return {"outcome": "fault-not-reached:" + oc, "key": None, "violations": [], "stats": {}}
    if at_start:
        if not (rec.exc is not None and rec.exc["msg"].startswith("Failed to evaluate initial iterate")):
            what = rec.exc["cls"] + ":" + str(rec.exc["site"]) if rec.exc else oc
            viol.append(M.V(f"C07|start_fault_not_reported|{faults[0][0]}|{what}",
                            f"failure of {faults} at the starting point gave {rec.exc or oc} instead of the initial-point error"))
        return {"outcome": "start:" + oc, "key": f"{spec['tag']}|{G.cfg_key(cfg)}|{faults}", "violations": viol, "stats": {"fired": len(fired)}}
    if fired and all(f[0] == "solve@estimator" for f in fired):
        # the failing solve belonged to the condition estimator (an observer): the computation must not notice at all
        if rec.digest != case.get("base_digest"):
            what = f"{rec.exc['cls']}: {rec.exc['msg']} ({rec.exc['site']})" if rec.exc else "different trajectory"
            viol.append(M.V("C07|estimator_fault_perturbs", f"a failing solve inside the condition estimate (solve {case.get('ls')}) changed the run: {what}"))
        return {"outcome": "estimator:" + oc, "key": f"{spec['tag']}|{G.cfg_key(cfg)}|rcond|{case.get('ls')}", "violations": viol,
                "stats": {"fired": len(fired)}}
    # post-start faults
    if rec.result is None:
        e = rec.exc
        if not (e["deliberate"] and e["msg"].startswith("Inverse step size")):
            viol.append(M.V(f"C07|{tag}|escaped|{e['cls']}|{e['site']}", f"fault {case.get('f') or case.get('lf') or case.get('ls') or case.get('sf') or region} escaped solve(): {e['cls']}: {e['msg']} ({e['site']})"))
    else:
        r = rec.result
        for nm in ("x", "y", "d"):
            if not np.isfinite(np.asarray(getattr(r, nm), dtype=float)).all():
                viol.append(M.V(f"C07|{tag}|nonfinite_{nm}", f"result.{nm} = {np.asarray(getattr(r, nm)).tolist()}"))
        viol += [dict(v, sig=v["sig"].replace("C01|", f"C07|{tag}|kkt_")) for v in M.mon_c01(rec, ctx.F, ctx.weights, ctx.params)]
        if region is not None and in_region(region, r.x):
            viol.append(M.V("C07|region|result_in_region", f"result.x={np.asarray(r.x).tolist()} lies in the failing region"))
    tr = rec.trials
    T = None
    for k, t in enumerate(tr):
        if t.failed:
            if t.accepted:
                viol.append(M.V(f"C07|{tag}|faulty_trial_accepted", f"trial {k} saw a failure but was reported accepted"))
            if t.it_out is not t.it_in and not M.same(t.it_out, t.it_in):
                viol.append(M.V(f"C07|{tag}|faulty_trial_moved", f"trial {k} saw a failure but returned a different iterate"))
            if not t.accepted and not (t.lamb > 1.0 / t.dt):
                viol.append(M.V(f"C07|{tag}|step_size_not_reduced", f"trial {k}: lambda {t.lamb!r} after a failure at lambda {1.0 / t.dt!r}: the step size was not reduced"))
            nxt = tr[k + 1].it_in if k + 1 < len(tr) else getattr(solver, "final_iterate", None)
            if nxt is not None and not M.same(nxt, t.it_in):
                viol.append(M.V(f"C07|{tag}|iterate_changed_after_failure", f"after failed trial {k} the solve continued from another point"))
        if region is not None and t.accepted:
            xu = np.ldexp(t.it_out.x[: ctx.F.n], -np.array(ctx.weights["vw"], dtype=int)) if ctx.weights else t.it_out.x[: ctx.F.n]
            if in_region(region, xu):
                viol.append(M.V("C07|region|accepted_iterate_in_region", f"accepted iterate {xu.tolist()} lies in the failing region"))
    seen, vs = set(), []
    for v in viol:
        if v["sig"] not in seen:
            seen.add(v["sig"]); vs.append(v)
    return {"outcome": tag + ":" + oc, "key": f"{spec['tag']}|{G.cfg_key(cfg)}|{sorted((cfg.get('params') or {}).items())}|{cfg.get('display_interval')}|{sc is not None}|{case.get('f')}|{case.get('lf')}|{case.get('ls')}|{case.get('sf')}|{region}",
            "violations": vs, "stats": {"fired": len(fired), "failed_trials": sum(1 for t in tr if t.failed)}}


def summarize(cases_, results, tier):
    return {"faults_fired": sum(r["stats"].get("fired", 0) for r in results),
            "failed_trials_observed": sum(r["stats"].get("failed_trials", 0) for r in results),
            "position_cap_hit": CAPPED, "exhaustive": not CAPPED}


def vacuity(cases_, results, tier):
    s = summarize(cases_, results, tier)
    out = []
    if s["failed_trials_observed"] < 500:
        out.append("fewer than 500 failed trials observed")
    if sum(1 for r in results if r["outcome"].startswith("start:")) < 20:
        out.append("fewer than 20 starting-point faults")
    return out
