"""C02 Non-optimal terminal statuses are justified by the returned point."""
from pgfmc.drive import grid as G
from pgfmc.drive import monitors as M
from . import _loop as L

ID = "C02"
LEVEL = "model_checking"
RULE = ("(a) scripted-loop model checking (see C12): all environment answer sequences of depth 6 with <= 2 (quick) / 3 (thorough) deviations, "
        "including every iteration limit 0..6, every clock-expiry read 1..16 and every start point of the classified pool (optimal, infeasible-"
        "stationary interior / at the upper bound, non-stationary at the lower bound, feasible below the objective limit, infeasible below the "
        "limit); status, iteration count and returned point compared with the reference loop whose termination uses the oracle's classification; "
        "(b) complete real runs on infeasible / unbounded / core families x configurations x scalings x iteration limits: every LocallyInfeasible "
        "and Unbounded result re-checked on the final internal iterate with the reference transformation, IterationLimit <=> iterations == limit")
ASSUMPTIONS = ["TimeLimit is decided on a virtual clock: 'deadline passed' = the deciding read minus the timer's start read >= time_limit",
               "stationarity of the violation measure uses the true box projection (fixed variables are free), which the code's stricter test implies",
               "IntegrationSolver is outside this property's anchors"]
CASE_ALARM_S = 300


def run_table(tier, seed):
    specs = G.adversarial_specs() + G.core_specs()[:2]
    cfgs = G.configs_star() if tier == "quick" else G.configs_pairs()
    out = []
    k = 0
    for si, spec in enumerate(specs):
        for ci, cfg in enumerate(cfgs):
            for lim in ((7, 150) if tier == "quick" else (0, 1, 7, 33, 300)):
                c = dict(cfg); c["iteration_limit"] = lim
                sc = G.scalings_of(spec, (0, 1, 3, 4))[k % 4]
                k += 1
                out.append({"t": "run", "spec": spec, "cfg": c, "sc": sc})
    return out


def cases(tier, seed):
    return [dict(c, t="loop") for c in L.cases(tier, seed)] + run_table(tier, seed)


def run_case(case):
    if case["t"] == "loop":
        return L.run_chunk(case, ID)
    from pgfmc.drive.run import outcome_of

    ctx = G.execute(case)
    if ctx.setup_error is not None:
        return {"outcome": "setup:" + type(ctx.setup_error).__name__, "key": None, "violations": [], "stats": {}}
    viol = M.mon_c02(ctx.rec, ctx.F, ctx.weights, ctx.params)
    oc = outcome_of(ctx.rec)
    key = f"{case['spec']['tag']}|{G.cfg_key(case['cfg'])}|{case['cfg']['iteration_limit']}|{ctx.weights}" if oc in ("LocallyInfeasible", "Unbounded", "IterationLimit") else None
    return {"outcome": oc, "key": key, "violations": viol, "stats": {"run": 1}}


def summarize(cases_, results, tier):
    m = L.merge(results)
    runs = sum(r["stats"].get("run", 0) for r in results)
    return {"states": m["loop_states"], "transitions": m["loop_transitions"],
            "traces_validated_against_impl": m["loop_executions"] + runs, "evaluations": m["loop_executions"] + runs,
            "loop_executions": m["loop_executions"], "real_runs": runs, "loop_outcomes": m["loop_outcomes"]}


def samples(cases_, results):
    return [L.merge(results)["loop_sample"]]


def vacuity(cases_, results, tier):
    oc = {}
    for r in results:
        oc[r["outcome"]] = oc.get(r["outcome"], 0) + 1
    out = []
    for need in ("LocallyInfeasible", "Unbounded", "IterationLimit"):
        if oc.get(need, 0) < 10:
            out.append(f"fewer than 10 real runs ended {need}")
    lo = L.merge(results)["loop_outcomes"]
    for need in ("LocallyInfeasible", "Unbounded", "IterationLimit", "TimeLimit", "Optimal"):
        if lo.get(need, 0) < 10:
            out.append(f"fewer than 10 scripted executions ended {need}")
    return out
