"""C02 Non-optimal terminal statuses are justified by the returned point."""
from pgfmc.drive import grid as G
from pgfmc.drive import monitors as M
from . import _loop as L

ID = "C02"
LEVEL = "model_checking"
RULE = ("(a) scripted-loop model checking (see C12): all environment answer sequences of depth 6 with <= 2 (quick) / 3 (thorough) deviations, "
        "including every iteration limit 0..6, every clock-expiry read 1..16 and every start point of the classified pool (optimal, infeasible-"
        "stationary interior / at the upper bound, non-stationary at the lower bound, feasible below the objective limit, infeasible below the "
        "limit); status, iteration count and returned point compared with the reference loop whose termination uses the oracle's classification; "
        "(b) complete real runs on infeasible / unbounded / core families and on starts outside the variable box (incl. one whose objective is already below the limit) x configurations x scalings x iteration limits: every LocallyInfeasible "
        "and Unbounded result re-checked on the final internal iterate with the reference transformation, IterationLimit <=> iterations == limit; "
        "(c) IntegrationSolver.solve (outside the anchors, but also a solve): every iteration limit 0..k on every integration spec: iterations <= limit, "
        "IterationLimit => iterations == limit, and differential against the unlimited run (limit below its count must end the solve there, above it changes nothing)")
ASSUMPTIONS = ["a few runs use the real clock with a 0.75 s deadline in a process older than that: TimeLimit is only accepted if the wall time around solve() reached the limit", "otherwise TimeLimit is decided on a virtual clock: 'deadline passed' = the deciding read minus the timer's start read >= time_limit",
               "stationarity of the violation measure uses the true box projection (fixed variables are free), which the code's stricter test implies",
               "for IntegrationSolver only the iteration-limit clauses are checked (its Optimal test precedes nothing: a run that converges in exactly `limit` legs is Optimal)"]
CASE_ALARM_S = 300
TIMEOUT_IS_VIOLATION = "a solve with an iteration limit did not return"


def run_table(tier, seed):
    specs = G.adversarial_specs() + G.core_specs()[:2] + G.outside_start_specs()
    cfgs = G.configs_star() if tier == "quick" else G.configs_pairs()
    out = []
    k = 0
    for si, spec in enumerate(specs):
        for ci, cfg in enumerate(cfgs):
            for lim in ((7, 150) if tier == "quick" else (0, 1, 7, 33, 300)):
                c = dict(cfg); c["iteration_limit"] = lim
                sc = G.scalings_of(spec, (0, 1, 3, 4))[k % 4]
                k += 1
                out.append({"t": "run", "spec": spec, "cfg": c, "sc": sc})
    for spec in (G.adversarial_specs()[:5] + G.core_specs()[:2]):
        for vi in range(len(G.PARAM_VARIANTS)):
            out.append({"t": "run", "spec": spec, "cfg": {"iteration_limit": 150, "pv": vi}, "sc": None})
    for spec in G.small_jacobian_specs():
        for rho in (1e-8, 1.0, 1e4, 1e8):
            for ctl in ("DistanceRatio", "Exact"):
                out.append({"t": "run", "spec": spec, "cfg": {"control": ctl, "iteration_limit": 150, "params": {"rho": rho}}, "sc": None})
    return out


def realtime_table(tier):
    """Runs under the REAL clock with a finite deadline much shorter than the age of this process: TimeLimit may only be returned
    if the wall time measured around solve() reached the limit (one-sided, hence never flaky)."""
    out = []
    for spec in G.core_specs()[:3]:
        for ctl in ("DistanceRatio", "Exact"):
            out.append({"t": "realtime", "spec": spec, "cfg": {"control": ctl, "iteration_limit": 30, "params": {"time_limit": 0.75}}, "sc": None})
    return out


def integration_table(tier):
    """Flow-integration solver (the second solve() of the package): every limit 0..k for every integration spec of C01."""
    from pgfmc.props import c01

    limits = [0, 1, 2, 3, 5] if tier == "quick" else list(range(0, 10))
    return [{"t": "integ", "spec": sp, "limits": limits} for sp in c01.integration_specs(tier)]


def run_integration_limits(case):
    import numpy as np
    from pygradflow.integration.integration_solver import IntegrationSolver
    from pgfmc.drive import run as R
    from pgfmc.drive.problems import UserProblem

    spec = case["spec"]

    def one(limit):
        params = R.make_params({"iteration_limit": limit})
        try:
            with np.errstate(all="ignore"):
                r = IntegrationSolver(UserProblem(spec), params).solve(np.array(spec["x0"]), np.array(spec["y0"]))
            return (r.status.name, int(r.iterations))
        except Exception as e:
            if type(e).__name__ == "CaseTimeout":
                raise
            return ("exc:" + type(e).__name__, None)

    ref = one(40)
    viol, n_lim = [], 0
    for L_ in case["limits"]:
        st, it = one(L_)
        if it is None:
            continue
        if it > L_:
            viol.append(M.V("C02|integration|iterations_exceed_limit", f"IntegrationSolver performed {it} iterations with iteration_limit={L_} ({spec['tag']})"))
        if st == "IterationLimit":
            n_lim += 1
            if it != L_:
                viol.append(M.V("C02|integration|limit_status_count", f"IntegrationSolver returned IterationLimit after {it} iterations with iteration_limit={L_} ({spec['tag']})"))
        if ref[1] is not None and ref[1] < 40:
            # the limit does not influence the trajectory: below the unlimited count the limit must end the solve, above it nothing changes
            if L_ < ref[1] and (st, it) != ("IterationLimit", L_):
                viol.append(M.V("C02|integration|limit_not_honoured", f"unlimited solve takes {ref[1]} iterations ({ref[0]}); with iteration_limit={L_} the result is {st} after {it} ({spec['tag']})"))
            if L_ > ref[1] and (st, it) != ref:
                viol.append(M.V("C02|integration|limit_changes_result", f"unlimited solve: {ref}; with the larger iteration_limit={L_}: {(st, it)} ({spec['tag']})"))
    return {"outcome": "integration:" + ref[0], "key": spec["tag"] if n_lim else None, "violations": viol[:3], "stats": {"run": len(case["limits"]) + 1, "integ_limit": n_lim}}


def cases(tier, seed):
    return [dict(c, t="loop") for c in L.cases(tier, seed)] + run_table(tier, seed) + realtime_table(tier) + integration_table(tier)


def run_case(case):
    if case["t"] == "loop":
        return L.run_chunk(case, ID)
    from pgfmc.drive.run import outcome_of

    if case["t"] == "integ":
        return run_integration_limits(case)
    if case["t"] == "realtime":
        import time

        from pgfmc.core import framework
        age = time.time() - framework.T_IMPORT
        if age < 2.0:
            time.sleep(2.0 - age)  # the process (and the pygradflow modules in it) is now older than the deadline
        t0 = time.time()
        ctx = G.execute(case)
        wall = time.time() - t0
        viol = []
        r = ctx.rec.result
        if r is not None and r.status.name == "TimeLimit" and wall < 0.75:
            viol.append(M.V("C02|time_limit_before_deadline", f"TimeLimit after {r.iterations} iterations although solve() took {wall:.3f}s of a 0.75s limit"))
        return {"outcome": "realtime:" + outcome_of(ctx.rec), "key": None, "violations": viol, "stats": {"run": 1}}
    case = G.with_variant(case)
    ctx = G.execute(case)
    if ctx.setup_error is not None:
        return {"outcome": "setup:" + type(ctx.setup_error).__name__, "key": None, "violations": [], "stats": {}}
    viol = M.mon_c02(ctx.rec, ctx.F, ctx.weights, ctx.params)
    oc = outcome_of(ctx.rec)
    key = f"{case['spec']['tag']}|{G.cfg_key(case['cfg'])}|{case['cfg']['iteration_limit']}|{ctx.weights}|{sorted((case['cfg'].get('params') or {}).keys())}" if oc in ("LocallyInfeasible", "Unbounded", "IterationLimit") else None
    return {"outcome": oc, "key": key, "violations": viol, "stats": {"run": 1}}


def summarize(cases_, results, tier):
    m = L.merge(results)
    runs = sum(r["stats"].get("run", 0) for r in results)
    return {"states": m["loop_states"], "transitions": m["loop_transitions"],
            "traces_validated_against_impl": m["loop_executions"] + runs, "evaluations": m["loop_executions"] + runs,
            "loop_executions": m["loop_executions"], "real_runs": runs, "loop_outcomes": m["loop_outcomes"]}


def samples(cases_, results):
    return [L.merge(results)["loop_sample"]]


def vacuity(cases_, results, tier):
    oc = {}
    for r in results:
        oc[r["outcome"]] = oc.get(r["outcome"], 0) + 1
    out = []
    for need in ("LocallyInfeasible", "Unbounded", "IterationLimit"):
        if oc.get(need, 0) < 10:
            out.append(f"fewer than 10 real runs ended {need}")
    if sum(r["stats"].get("integ_limit", 0) for r in results) < 50:
        out.append("fewer than 50 flow-integration solves ended at their iteration limit")
    lo = L.merge(results)["loop_outcomes"]
    for need in ("LocallyInfeasible", "Unbounded", "IterationLimit", "TimeLimit", "Optimal"):
        if lo.get(need, 0) < 10:
            out.append(f"fewer than 10 scripted executions ended {need}")
    return out
