"""C20 Automatic scalings normalise magnitudes with exact powers of two."""
import itertools

import numpy as np

ID = "C20"
LEVEL = "exploration"
RULE = ("values m*2^k, m in {1, 1.5, 2-eps}, k in {-40,-10,-1,0,1,10,40}, both signs and zero; Nominal: all ordered pairs/triples drawn from "
        "a covering of that alphabet; GradJac and KKT: ALL sparsity patterns of 2x2, 2x3, 3x3 Jacobians (and all symmetric Hessian patterns) "
        "x rotations of the magnitude list x sparse formats, also through create_scaling on real problems; oracle: integer weights, scaled "
        "magnitudes in [1,2) resp. column sums in [1,4); distinct = input (pattern, magnitudes) with at least one entry of magnitude != 1")
ASSUMPTIONS = ["zero entries / zero rows / zero columns are exempt as stated", "KKT: only when the equilibration returns (it may raise)",
               "pattern grids use magnitudes within 2^-40..2^40; single values cover every binary exponent of the normal range (2^k and its two neighbours)"]

MANT = [1.0, 1.5, 2.0 - 2.0 ** -40]
EXPS = [-40, -10, -1, 0, 1, 10, 40]
VALUES = [s * m * 2.0 ** k for k in EXPS for m in MANT for s in (1.0, -1.0)]  # 42 values


def cases(tier, seed):
    out = []
    # Nominal: all pairs (var, cons) of the alphabet incl. zero
    vals = VALUES + [0.0]
    for i, a in enumerate(vals):
        out.append({"kind": "nominal", "a": i})
    # every binary exponent of the normal range: 2^k, its two neighbours, 1.5*2^k (both signs) as nominal value and gradient component
    for k0 in range(-1022, 1024, 64):
        out.append({"kind": "edges", "k0": k0, "k1": min(k0 + 64, 1024)})
    shapes = [(2, 2), (2, 3)] + ([(3, 3)] if tier == "thorough" else [(3, 2)])
    rots = range(0, 42, 5) if tier == "thorough" else range(0, 42, 11)
    for (m, n) in shapes:
        for pat in range(1, 2 ** (m * n)):
            for rot in rots:
                out.append({"kind": "gradjac", "m": m, "n": n, "pat": pat, "rot": rot})
    # KKT: n=2, m=1 and n=2, m=2 ; Hessian symmetric pattern bits (n(n+1)/2), Jacobian pattern bits
    kshapes = [(2, 1), (2, 2)] + ([(3, 1)] if tier == "thorough" else [])
    for (n, m) in kshapes:
        hb = n * (n + 1) // 2
        for hp in range(2 ** hb):
            for jp in range(1, 2 ** (m * n)):
                for rot in (range(0, 42, 7) if tier == "thorough" else range(0, 42, 14)):
                    out.append({"kind": "kkt", "n": n, "m": m, "hp": hp, "jp": jp, "rot": rot})
    for si in range(3):
        for sp in range(4 if tier == "quick" else 12):
            out.append({"kind": "create", "si": si, "sp": sp})
            out.append({"kind": "create", "si": si, "sp": sp, "single": True})
            for pen in ("ObjectiveFilter", "LagrangianFilter", "ParetoDecrease"):
                out.append({"kind": "create", "si": si, "sp": sp, "penalty": pen})
    return out


def fill(pattern_bits, count, rot, stride=5):
    vals = []
    k = rot
    for b in range(count):
        if (pattern_bits >> b) & 1:
            vals.append(VALUES[k % len(VALUES)])
            k += stride
        else:
            vals.append(0.0)
    return vals


def in12(v):
    return 1.0 <= abs(v) < 2.0


def is_int_weights(w):
    w = np.asarray(w)
    return w.dtype.kind == "i"


def check_gradjac(sc, grad, J, bad, at):
    vw, cw = np.asarray(sc.var_weights), np.asarray(sc.cons_weights)
    if not (is_int_weights(vw) and (cw.size == 0 or is_int_weights(cw))):
        bad("weights_not_integer", f"dtypes {vw.dtype} {cw.dtype}", at)
        return
    gs = np.ldexp(grad, int(sc.obj_weight) - vw)
    for j, g in enumerate(grad):
        if g != 0.0 and not in12(gs[j]):
            bad("gradjac_gradient", f"scaled gradient component {j} = {gs[j]!r} not in [1,2) (raw {g!r}, weight {vw[j]})", at)
    Js = np.ldexp(J, cw[:, None] - vw[None, :]) if J.size else J
    for i in range(J.shape[0]):
        if np.any(J[i] != 0.0):
            mx = float(np.max(np.abs(Js[i])))
            if not (1.0 <= mx < 2.0):
                bad("gradjac_row_max", f"scaled Jacobian row {i} has max {mx!r} not in [1,2) (raw row {J[i].tolist()}, weights cw={cw[i]} vw={vw.tolist()})", at)


def as_format(dense, fmt):
    """The same matrix in several storage forms; coo_dup / coo_cancel store every entry twice (two halves / 3v and -2v): a sparse
    matrix with duplicate entries denotes their sums."""
    import scipy.sparse as sps

    if fmt == "coo_zeros":
        # fixed (dense) sparsity pattern: vanishing entries are stored as explicit zeros
        r, c = np.nonzero(np.ones_like(dense))
        return sps.coo_matrix((dense[r, c], (r, c)), shape=dense.shape)
    if fmt == "coo_cancel0":
        # non-zero entries stored once; at every vanishing position a pair 3 and -3 that cancels exactly
        r, c = np.nonzero(dense)
        r0, c0 = np.nonzero(dense == 0)
        w = np.full(len(r0), 3.0)
        return sps.coo_matrix((np.concatenate([dense[r, c], w, -w]), (np.concatenate([r, r0, r0]), np.concatenate([c, c0, c0]))), shape=dense.shape)
    if fmt in ("coo_dup", "coo_cancel"):
        r, c = np.nonzero(dense)
        v = dense[r, c]
        parts = (0.5 * v, 0.5 * v) if fmt == "coo_dup" else (3.0 * v, -2.0 * v)
        return sps.coo_matrix((np.concatenate(parts), (np.concatenate([r, r]), np.concatenate([c, c]))), shape=dense.shape)
    return sps.coo_matrix(dense).asformat(fmt)


def run_case(case):
    import scipy.sparse as sps
    from pygradflow.scale import Scaling

    viol = []
    key = None

    def bad(what, msg, at):
        if len(viol) < 10:
            viol.append({"sig": f"C20|{what}", "msg": f"{what}: {msg} at {at}", "detail": at})

    kind = case["kind"]
    if kind == "nominal":
        vals = VALUES + [0.0]
        a = vals[case["a"]]
        n_pairs = 0
        for b in vals:
            for c in (vals[(case["a"] * 7 + 3) % len(vals)],):
                var_values = np.array([a, b, c])
                cons_values = np.array([b, a])
                sc = Scaling.from_nominal_values(var_values, cons_values)
                n_pairs += 1
                at = {"var": var_values.tolist(), "cons": cons_values.tolist()}
                if not (is_int_weights(sc.var_weights) and is_int_weights(sc.cons_weights)):
                    bad("weights_not_integer", f"{sc.var_weights.dtype}", at)
                    continue
                xs = np.ldexp(var_values, sc.var_weights)
                cs = np.ldexp(cons_values, sc.cons_weights)
                for name, raw, scd in (("var", var_values, xs), ("cons", cons_values, cs)):
                    for j in range(len(raw)):
                        if raw[j] != 0.0 and not in12(scd[j]):
                            bad("nominal_" + name, f"scaled nominal {name} value {scd[j]!r} not in [1,2) (raw {raw[j]!r})", at)
                # scale_primal must apply the same weights
                if not np.array_equal(sc.scale_primal(var_values), xs):
                    bad("scale_primal", "scale_primal differs from ldexp(x, var_weights)", at)
        key = f"nominal|{case['a']}" if abs(a) != 1.0 else None
        stats = {"inputs": n_pairs}
    elif kind == "edges":
        stats = {"inputs": 0}
        for k in range(case["k0"], case["k1"]):
            p2 = float(np.ldexp(1.0, k))
            for v in (p2, float(np.nextafter(p2, 0.0)), float(np.nextafter(p2, np.inf)), 1.5 * p2):
                if not np.isfinite(v) or abs(v) < 2.0 ** -1022:
                    continue
                for sgn in (1.0, -1.0):
                    vals = np.array([sgn * v, 1.0])
                    at = {"value": repr(sgn * v), "k": k}
                    stats["inputs"] += 1
                    sc = Scaling.from_nominal_values(vals.copy(), vals[::-1].copy())
                    for name, raw, wts in (("var", vals, sc.var_weights), ("cons", vals[::-1], sc.cons_weights)):
                        scd = np.ldexp(raw, np.asarray(wts))
                        for j in range(2):
                            if not in12(scd[j]):
                                bad("nominal_" + name, f"scaled nominal {name} value {scd[j]!r} not in [1,2) (raw {raw[j]!r})", at)
                    if abs(k) <= 500:
                        J = np.array([[sgn * v, 0.0], [1.0, sgn * v]])
                        check_gradjac(Scaling.from_grad_jac(vals.copy(), sps.coo_matrix(J)), vals, J, bad, at)
            if 1 <= k <= 52:
                # the same values as INTEGER arrays (nominal values written as ints, integer-valued gradients and Jacobians)
                for iv in (2 ** k, 2 ** k - 1, 2 ** k + 1, 3 * 2 ** (k - 1)):
                    ivals = np.array([iv, 1], dtype=np.int64)
                    at = {"value": int(iv), "k": k, "dtype": "int64"}
                    stats["inputs"] += 1
                    sc = Scaling.from_nominal_values(ivals.copy(), ivals[::-1].copy())
                    for name, raw, wts in (("var", ivals, sc.var_weights), ("cons", ivals[::-1], sc.cons_weights)):
                        scd = np.ldexp(raw.astype(float), np.asarray(wts))
                        for j in range(2):
                            if not in12(scd[j]):
                                bad("nominal_" + name, f"scaled nominal {name} value {scd[j]!r} not in [1,2) (raw integer {int(raw[j])})", at)
                    Ji = np.array([[iv, 0], [1, iv]], dtype=np.int64)
                    check_gradjac(Scaling.from_grad_jac(ivals.copy(), sps.coo_matrix(Ji)), ivals.astype(float), Ji.astype(float), bad, at)
        key = f"edges|{case['k0']}"
    elif kind == "gradjac":
        m, n = case["m"], case["n"]
        J = np.array(fill(case["pat"], m * n, case["rot"])).reshape((m, n))
        stats = {"inputs": 0}
        for gi, grad in enumerate([np.array(fill(2 ** n - 1, n, case["rot"] + 3, stride=7)),
                                   np.array(fill(2 ** n - 2, n, case["rot"] + 20, stride=3))]):
            for fmt in ("coo", "csr", "csc", "coo_dup", "coo_cancel", "coo_zeros", "coo_cancel0"):
                sm = as_format(J, fmt)
                at = {"grad": grad.tolist(), "J": J.tolist(), "fmt": fmt}
                stats["inputs"] += 1
                try:
                    sc = Scaling.from_grad_jac(grad.copy(), sm)
                except Exception as e:
                    bad("gradjac_crash|" + type(e).__name__, f"from_grad_jac raised {type(e).__name__}: {e}", at)
                    continue
                check_gradjac(sc, grad, J, bad, at)
                # the weights are a function of the input alone (also for empty rows): recompute with a polluted allocator
                junk = [np.full(k, 1e300) for k in (m, n, m, n, m + n) for _ in range(4)]
                del junk
                sc2 = Scaling.from_grad_jac(grad.copy(), as_format(J, fmt))
                if not (np.array_equal(sc.var_weights, sc2.var_weights) and np.array_equal(sc.cons_weights, sc2.cons_weights)):
                    bad("gradjac_not_deterministic", f"two calls with the same input give weights {np.asarray(sc.cons_weights).tolist()} and {np.asarray(sc2.cons_weights).tolist()}", at)
        key = f"gradjac|{m}x{n}|{case['pat']}|{case['rot']}"
    elif kind == "kkt":
        n, m = case["n"], case["m"]
        hb = n * (n + 1) // 2
        hv = fill(case["hp"], hb, case["rot"] + 1, stride=4)
        Hm = np.zeros((n, n))
        k = 0
        for i in range(n):
            for j in range(i, n):
                Hm[i, j] = Hm[j, i] = hv[k]
                k += 1
        J = np.array(fill(case["jp"], m * n, case["rot"])).reshape((m, n))
        stats = {"inputs": 0, "returned": 0}
        for fmt in ("coo", "csr", "coo_dup", "coo_cancel", "coo_zeros", "coo_cancel0"):
            at = {"H": Hm.tolist(), "J": J.tolist(), "fmt": fmt}
            stats["inputs"] += 1
            try:
                sc = Scaling.from_equilibrated_kkt(as_format(Hm, fmt), as_format(J, fmt))
            except Exception as e:
                if "Equilibration failed to converge" in str(e):
                    continue
                bad("kkt_crash|" + type(e).__name__, str(e), at)
                continue
            stats["returned"] += 1
            vw, cw = np.asarray(sc.var_weights), np.asarray(sc.cons_weights)
            if not (is_int_weights(vw) and is_int_weights(cw)):
                bad("weights_not_integer", f"{vw.dtype} {cw.dtype}", at)
                continue
            ow = int(sc.obj_weight)
            Hs = np.ldexp(Hm, ow - vw[:, None] - vw[None, :])
            Js = np.ldexp(J, cw[:, None] - vw[None, :])
            K = np.block([[Hs, Js.T], [Js, np.zeros((m, m))]])
            Kraw = np.block([[Hm, J.T], [J, np.zeros((m, m))]])
            for j in range(n + m):
                if np.any(Kraw[:, j] != 0.0):
                    cs = float(np.sum(np.abs(K[:, j])))
                    if not (1.0 <= cs < 4.0):
                        bad("kkt_column_sum", f"scaled KKT column {j} has absolute sum {cs!r} not in [1,4) (weights vw={vw.tolist()} cw={cw.tolist()})", at)
        key = f"kkt|{n}|{m}|{case['hp']}|{case['jp']}|{case['rot']}"
    else:
        # create_scaling on real problems: Nominal / GradJac / KKT at a scaling point
        from pygradflow.scale import create_scaling
        from pgfmc.drive.problems import UserProblem
        from pgfmc.drive.run import make_params
        from pgfmc.model import specs as S
        from pgfmc.model.oracle import Funcs

        table = [(["free", "boxed"], "qfull", [("affine", "ranged"), ("bilinear", "eq0")]),
                 (["lower", "upper"], "cubic", [("sphere", "upper")]),
                 (["boxed", "boxed"], "exp", [("affine", "eqoff"), ("sphere", "lower")]),
                 (["free", "free", "boxed"], "qfull", [("affine", "eq0")])]
        vk, obj, rows = table[case["sp"] % 4]
        n, m = len(vk), len(rows)
        spec = S.mk(n, obj, rows, vk)
        # rescale the data so that small magnitudes occur
        pt = [[0.625, -1.25, 0.75], [2.0 ** -12, 3.0 * 2.0 ** -9, -2.0 ** -7], [1e3, -2e-4, 0.03]][case["sp"] // 4 % 3][:n]
        if case.get("single"):
            # values just below a power of two: rounding the scaling point to float32 first would change their exponent
            pt = [1.99999999, -0.99999999, 0.0312499999][:n]
        typ = ["Nominal", "GradJac", "KKT"][case["si"]]
        sc_spec = {"type": typ, "at": pt, "dual": [0.5, -1.5][:m]}
        prob = UserProblem(spec)
        params = make_params({"params": {"precision": "Single"}} if case.get("single") else ({"penalty": case["penalty"]} if case.get("penalty") else {}), sc_spec)
        stats = {"inputs": 1}
        at = {"spec": spec["tag"], "type": typ, "at": pt}
        F = Funcs(spec)
        try:
            sc = create_scaling(prob, params, params.scaling_primal, params.scaling_dual)
        except Exception as e:
            if "Equilibration failed to converge" in str(e):
                return {"outcome": "kkt-no-return", "key": None, "violations": [], "stats": stats}
            raise
        x = np.array(pt)
        with np.errstate(all="ignore"):
            finite = all(np.isfinite(v).all() for v in (F.grad(x), F.jac(x), F.c(x), F.hessL(x, np.array(sc_spec["dual"]))))
        if not finite:
            return {"outcome": "out-of-class:non-finite data", "key": None, "violations": [], "stats": stats}
        if typ == "Nominal":
            xs = np.ldexp(x, sc.var_weights)
            cs = np.ldexp(F.c(x), sc.cons_weights)
            for j in range(n):
                if x[j] != 0 and not in12(xs[j]):
                    bad("nominal_var", f"scaled {xs[j]!r}", at)
            for i in range(m):
                if F.c(x)[i] != 0 and not in12(cs[i]):
                    bad("nominal_cons", f"scaled {cs[i]!r} raw {F.c(x)[i]!r}", at)
        elif typ == "GradJac":
            check_gradjac(sc, F.grad(x), F.jac(x), bad, at)
        else:
            vw, cw = np.asarray(sc.var_weights), np.asarray(sc.cons_weights)
            Hm, J = F.hessL(x, np.array(sc_spec["dual"])), F.jac(x)
            Hs = np.ldexp(Hm, int(sc.obj_weight) - vw[:, None] - vw[None, :])
            Js = np.ldexp(J, cw[:, None] - vw[None, :])
            K = np.block([[Hs, Js.T], [Js, np.zeros((m, m))]])
            Kraw = np.block([[Hm, J.T], [J, np.zeros((m, m))]])
            for j in range(n + m):
                if np.any(Kraw[:, j] != 0.0):
                    cs = float(np.sum(np.abs(K[:, j])))
                    if not (1.0 <= cs < 4.0):
                        bad("kkt_column_sum", f"column {j} sum {cs!r}", at)
        key = f"create|{typ}|{case['sp']}|{case.get('single')}|{case.get('penalty')}"
    seen, vs = set(), []
    for v in viol:
        if v["sig"] not in seen:
            seen.add(v["sig"]); vs.append(v)
    return {"outcome": "normalised" if not viol else "violating", "key": key, "violations": vs, "stats": stats}


def summarize(cases_, results, tier):
    return {"inputs": sum(r["stats"].get("inputs", 0) for r in results),
            "kkt_returned": sum(r["stats"].get("returned", 0) for r in results)}
