"""C04 The internally solved problem is an exact reformulation of the user's problem."""
import itertools

import numpy as np

from pgfmc.model import specs as S
from pgfmc.model.oracle import Funcs, RefTrans

ID = "C04"
LEVEL = "exploration"
RULE = ("cartesian grid: variable-kind tuples x constraint (function,bound)-kind tuples x objective x "
        "sparse format x scaling (none, 2 custom, Nominal, GradJac, KKT) ; every case evaluates the real "
        "Transformation.trans_problem and its evaluator at a lattice of points (inside/on/outside bounds, "
        "3 slack settings) x 3 multipliers and compares bit-for-bit with the reference transformation; "
        "distinct = (row kinds, variable kinds, scaling weights) signatures with at least one slack, offset or non-zero weight")
ASSUMPTIONS = ["power-of-two scaling and one add/subtract per row make the reference exactly representable; "
               "overflow/underflow ranges are not explored",
               "problems outside the spec algebra (n<=3, m<=2, polynomial rows) are not explored"]
CASE_ALARM_S = 60
FMTS = ["coo", "coo_dup", "csr", "csc"]


def cases(tier, seed):
    out = []
    idx = 0
    if tier == "quick":
        grid = [(1, ["cubic"]), (2, ["qfull", "cubic"])]
    else:
        grid = [(1, ["qfull", "cubic"]), (2, ["qfull", "cubic", "rosen"]), (3, ["qfull"])]
    for n, objs in grid:
        for vk in itertools.product(S.VAR_KINDS, repeat=n):
            for m in (0, 1, 2):
                if tier == "thorough" and n <= 2:
                    rowsets = itertools.product(itertools.product(S.ROW_FNS, S.ROW_KINDS), repeat=m)
                else:
                    fns = ["affine", "sphere"] if n == 1 else ["bilinear", "affine"]
                    rowsets = (tuple((fns[i], k) for i, k in enumerate(ks))
                               for ks in itertools.product(S.ROW_KINDS, repeat=m))
                for ri_, rows in enumerate(rowsets):
                    if tier == "thorough" and n == 2 and m == 2 and (ri_ + S.VAR_KINDS.index(vk[0])) % 4 != 0:
                        continue  # two rows on two variables: a quarter of the (variable kinds x row sets) table (bounds the tier to ~10 minutes)
                    for oi, obj in enumerate(objs):
                        if tier == "thorough" and n == 2 and m == 2 and oi == 2:
                            continue  # the third objective with one row at most (bounds the thorough tier to about 20 minutes)
                        fm = FMTS if tier == "thorough" and n <= 2 and m >= 1 and (m < 2 or oi == 0) else [FMTS[idx % 4]]
                        for fmt in fm:
                            for si in range(7):
                                out.append({"n": n, "vk": list(vk), "rows": [list(r) for r in rows], "obj": obj,
                                            "fmt": fmt, "si": si,
                                            "lat": [1, 2] if tier == "quick" else [0, 1, 2, 3]})
                                idx += 1
    # rows without any bound; huge finite variable bounds
    for vk in (["free", "boxed"], ["hugebox", "lower"], ["hugebox", "hugebox"]):
        for rows in ([("affine", "freerow")], [("sphere", "freerow"), ("affine", "eqoff")], [("affine", "ranged"), ("bilinear", "freerow")]):
            for si in range(7):
                out.append({"n": 2, "vk": vk, "rows": [list(r) for r in rows], "obj": "qfull", "fmt": FMTS[idx % 4], "si": si,
                            "lat": [1, 2] if tier == "quick" else [0, 1, 2, 3]})
                idx += 1
    # rows of large magnitude and tiny relative width (must stay ranged rows with a slack)
    for vk in (["free", "boxed"], ["lower", "fixed"]):
        for rows in ([("affine", "narrow")], [("sphere", "narrow"), ("affine", "eqoff")], [("affine", "eq0"), ("bilinear", "narrow")]):
            for si in range(6):
                out.append({"n": 2, "vk": vk, "rows": [list(r) for r in rows], "obj": "qfull", "fmt": FMTS[idx % 4], "si": si,
                            "lat": [1, 2] if tier == "quick" else [0, 1, 2, 3]})
                idx += 1
    # matrices whose stored pattern is the set of CURRENT non-zeros (changes from point to point, sometimes with the same nnz)
    for vk in (["free", "boxed"], ["lower", "upper"]):
        for rows in ([("bilinear", "eq0")], [("sphere", "ranged"), ("bilinear", "upper")], [("cubic", "lower")]):
            for obj in ("rosen", "cubic"):
                for si in range(6):
                    out.append({"n": 2, "vk": vk, "rows": [list(r) for r in rows], "obj": obj, "fmt": FMTS[idx % 4], "si": si, "nzpat": True,
                                "lat": [0, 1, 2, 3]})
                    idx += 1
    # three and four rows: every interleaving of equality / one-sided / ranged rows (slack columns must follow the row order)
    for m, kinds in ((3, S.ROW_KINDS), (4, ["eqoff", "lower", "upper", "ranged"])):
        fns = ["affine", "bilinear", "sphere", "affine"]
        for ks in itertools.product(kinds, repeat=m):
            rows = [(fns[i], k) for i, k in enumerate(ks)]
            for si in ((0, 4) if tier == "quick" else (0, 1, 4, 5)):
                out.append({"n": 2, "vk": ["free", "boxed"], "rows": [list(r) for r in rows], "obj": "qfull", "fmt": FMTS[idx % 4], "si": si,
                            "lat": [1, 2] if tier == "quick" else [0, 1, 2, 3]})
                idx += 1
    # the non-validating evaluator (validate_input=False): every row-kind tuple again, incl. slack-free problems with offsets only
    for vk in (["free", "boxed"], ["lower", "fixed"]):
        for m in (0, 1, 2):
            for ks in itertools.product(S.ROW_KINDS, repeat=m):
                rows = [("bilinear" if i == 0 else "affine", k) for i, k in enumerate(ks)]
                for si in (0, 1, 4, 6):
                    out.append({"n": 2, "vk": vk, "rows": [list(r) for r in rows], "obj": "qfull", "fmt": FMTS[idx % 4], "si": si,
                                "pp": {"validate_input": False}, "lat": [1, 2] if tier == "quick" else [0, 1, 2, 3]})
                    idx += 1
    # further scipy storage classes with a numeric .data array: DIA (as produced by scipy.sparse.diags) and BSR.  (LIL and DOK matrices make
    # the validating evaluator raise a TypeError on the unmodified tree - their .data is not a numeric array; they are treated as outside the
    # documented interface, see DESIGN 10.2)
    for fmt in ("dia", "bsr", "csr_dup", "csc_dup"):
        for vk in (["free", "boxed"], ["lower", "upper"]):
            for rows in ([("bilinear", "eq0")], [("sphere", "ranged"), ("affine", "upper")], []):
                for obj in ("qfull", "cubic"):
                    for si in range(7):
                        out.append({"n": 2, "vk": vk, "rows": [list(r) for r in rows], "obj": obj, "fmt": fmt, "si": si,
                                    "lat": [1, 2] if tier == "quick" else [0, 1, 2, 3]})
    # variable bounds handed over as integer-typed arrays
    for vk in (["intbox", "intbox"], ["intbox"]):
        for rows in ([], [("affine", "ranged")], [("sphere", "upper"), ("affine", "eqoff")], [("affine", "introw")], [("sphere", "inteq"), ("affine", "introw")],
                     [("affine", "inteq")]):
            if len(vk) == 1:
                rows = [(("sphere" if f == "sphere" else "affine"), k) for f, k in rows]
            for si in range(7):
                out.append({"n": len(vk), "vk": vk, "rows": [list(r) for r in rows], "obj": "cubic", "fmt": FMTS[idx % 4], "si": si,
                            "lat": [1, 2] if tier == "quick" else [0, 1, 2, 3]})
                idx += 1
    # constant integer-valued Jacobians / Hessians returned with an integer dtype
    for vk in (["free", "boxed"], ["lower", "upper"]):
        for rows in ([("affine", "eq0")], [("affine", "ranged"), ("affine", "eqoff")], [("affine", "upper")]):
            for fmt in FMTS:
                for si in range(6):
                    out.append({"n": 2, "vk": vk, "rows": [list(r) for r in rows], "obj": "qdiag", "fmt": fmt, "si": si, "idtype": True,
                                "lat": [1, 2] if tier == "quick" else [0, 1, 2, 3]})
    return out


def build(case):
    spec = S.mk(case["n"], case["obj"], [tuple(r) for r in case["rows"]], case["vk"], fmt=case["fmt"], idtype=case.get("idtype", False))
    spec["nzpat"] = bool(case.get("nzpat"))
    sc = S.scalings(case["n"], len(case["rows"]), [0.625, -1.25, 0.75][: case["n"]])[case["si"]]
    return spec, sc


def eq(a, b):
    a = np.asarray(a, dtype=float)
    b = np.asarray(b, dtype=float)
    return a.shape == b.shape and bool(np.array_equal(a, b, equal_nan=True))


def run_case(case):
    from pygradflow.transform import Transformation
    from pgfmc.drive.problems import UserProblem
    from pgfmc.drive.run import make_params

    spec, sc = build(case)
    prob = UserProblem(spec)
    F = Funcs(spec)
    try:
        params = make_params({"params": dict(case["pp"])} if case.get("pp") else {}, sc)
        tr = Transformation(prob, params)
    except Exception as e:
        # e.g. equilibration legitimately failing: not C04's concern
        return {"outcome": "scaling-unavailable:" + type(e).__name__, "key": None, "violations": [], "stats": {}}
    scal = tr.scaling
    if scal is None:
        T = RefTrans(F)
        wsig = "none"
    else:
        T = RefTrans(F, scal.var_weights, scal.cons_weights, scal.obj_weight)
        wsig = f"{list(map(int, scal.var_weights))}{list(map(int, scal.cons_weights))}{int(scal.obj_weight)}"
    P = tr.trans_problem
    ev = tr.evaluator
    viol = []

    def bad(what, got, want, at):
        viol.append({"sig": f"C04|{what}", "msg": f"{what} differs at {at}: got {np.asarray(got).tolist()} want {np.asarray(want).tolist()}",
                     "detail": {"at": at}})

    n, m = F.n, F.m
    if P.num_vars != T.n or P.num_cons != T.m:
        bad("shape", [P.num_vars, P.num_cons], [T.n, T.m], "-")
        return {"outcome": "violating", "key": None, "violations": viol, "stats": {}}
    if not eq(P.var_lb, T.var_lb):
        bad("var_lb", P.var_lb, T.var_lb, "-")
    if not eq(P.var_ub, T.var_ub):
        bad("var_ub", P.var_ub, T.var_ub, "-")
    if not eq(P.cons_lb, np.zeros(m)) or not eq(P.cons_ub, np.zeros(m)):
        bad("cons_bounds", [P.cons_lb, P.cons_ub], np.zeros((2, m)), "-")

    ys = [np.zeros(m), np.array([1.0, -2.0, 0.75, -0.5][:m]), np.array([0.5, 0.25, -1.5, 2.0][:m])]
    pts = []
    for k in case.get("lat", [0, 1, 2, 3]):
        xu = np.array(S.LATTICE[k][:n])
        pts.append(xu)
        pts.append(np.array(S.project(xu, spec["var_lb"], spec["var_ub"])))
    if case.get("nzpat") and n == 2:
        # points at which single derivative entries vanish, so that the stored pattern MOVES while its size stays the same
        for q in ([0.0, 1.0], [1.0, -0.5], [-0.5, 1.0], [1.0, -1.0], [0.0, 1.0]):
            pts.append(np.array(q))
    # scalar starts are broadcast, a missing start is the origin projected onto the box, missing multipliers are zero
    for (sx, sy) in ((0.5, 0.25), (-1.0, 0.0), (None, None), (2, None)):
        xfull = np.clip(np.zeros(n), F.var_lb, F.var_ub) if sx is None else np.full(n, float(sx))
        yfull = np.zeros(m) if sy is None else np.full(m, float(sy))
        its = tr.create_transformed_iterate(sx, sy)
        rxs, rys = T.transform_sol(xfull, yfull)
        if not eq(its.x, rxs) or not eq(its.y, rys):
            bad("initial_iterate(scalar or missing start)", np.concatenate([its.x, its.y]), np.concatenate([rxs, rys]), [sx, sy])
    nev = 0
    held = []
    for xu in pts:
        # transform_sol / restore_sol
        for y in ys:
            xi, yi = tr.transform_sol(xu, y)
            rx, ry = T.transform_sol(xu, y)
            if not eq(xi, rx) or not eq(yi, ry):
                bad("transform_sol", np.concatenate([xi, yi]), np.concatenate([rx, ry]), xu.tolist())
            d = np.concatenate([np.array([0.5, -1.0, 2.0][:n]), np.zeros(T.ns)])
            bx, by, bd = tr.restore_sol(xi, yi, d)
            ex, ey, ed = T.restore_sol(rx, ry, d)
            if not (eq(bx, ex) and eq(by, ey) and eq(bd, ed)):
                bad("restore_sol", np.concatenate([bx, by, bd]), np.concatenate([ex, ey, ed]), xu.tolist())
            if not (eq(bx, xu) and eq(by, y)):
                bad("roundtrip", np.concatenate([bx, by]), np.concatenate([xu, y]), xu.tolist())
        if np.all(xu == np.round(xu)):
            # an integer-typed start (array of ints, or a scalar int broadcast by the solver) means the same point
            xi_int = np.array(xu, dtype=np.int64)
            iti = tr.create_transformed_iterate(xi_int, ys[1])
            rxi, ryi = T.transform_sol(xu, ys[1])
            if not eq(iti.x, rxi) or not eq(iti.y, ryi):
                bad("initial_iterate(int start)", np.concatenate([iti.x, iti.y]), np.concatenate([rxi, ryi]), xu.tolist())
        it = tr.create_transformed_iterate(xu, ys[1])
        rx, ry = T.transform_sol(xu, ys[1])
        if not eq(it.x, rx) or not eq(it.y, ry):
            bad("initial_iterate", np.concatenate([it.x, it.y]), np.concatenate([rx, ry]), xu.tolist())
        base = rx
        variants = [base]
        if T.ns:
            v2 = base.copy(); v2[n:] = 0.3125
            lo = np.where(np.isfinite(T.var_lb[n:]), T.var_lb[n:], -1.0)
            v3 = base.copy(); v3[n:] = lo
            variants += [v2, v3]
        for xi in variants:
            for y in ys:
                yi = np.ldexp(y, T.ow - T.cw)
                for tag, src in ((("evaluator", ev),) if len(case.get("lat", [])) == 2 else (("problem", P), ("evaluator", ev))):
                    nev += 1
                    with np.errstate(all="ignore"):
                        got = [src.obj(xi), src.obj_grad(xi), src.cons(xi) if m else np.zeros(0),
                               src.cons_jac(xi).toarray() if m else np.zeros((0, T.n)), src.lag_hess(xi, yi).toarray()]
                        want = [T.obj(xi), T.grad(xi), T.cons(xi), T.jac(xi), T.hess(xi, yi)]
                    for name, g, w in zip(("obj", "grad", "cons", "jac", "hess"), got, want):
                        if not eq(g, w):
                            bad(f"{tag}.{name}", g, w, {"x": xi.tolist(), "y": yi.tolist()})
                    if len(held) < 24:
                        # the objects themselves (not dense copies) are kept: an iterate caches what it was given
                        with np.errstate(all="ignore"):
                            objs = [src.obj_grad(xi), src.cons(xi) if m else None, src.cons_jac(xi) if m else None, src.lag_hess(xi, yi)]
                        held.append((tag, xi.tolist(), objs, [T.grad(xi), T.cons(xi), T.jac(xi), T.hess(xi, yi)]))
    for tag, xat, objs, wants in held:
        for name, o, w in zip(("grad", "cons", "jac", "hess"), objs, wants):
            if o is None:
                continue
            g = o.toarray() if hasattr(o, "toarray") else o
            if not eq(g, w):
                bad(f"{tag}.{name}|changed_by_later_evaluation", g, w, {"x": xat})
    nontriv = T.ns > 0 or bool(np.any(T.offset != 0)) or wsig not in ("none",)
    key = None
    if nontriv:
        key = f"{[r[1] for r in case['rows']]}|{case['vk']}|{wsig}|{case['fmt']}|{case.get('idtype', False)}|{sorted((case.get('pp') or {}).items())}"
    # one replay per distinct signature
    seen, vs = set(), []
    for v in viol:
        if v["sig"] not in seen:
            seen.add(v["sig"]); vs.append(v)
    return {"outcome": "exact" if not viol else "violating", "key": key, "violations": vs,
            "stats": {"evals": nev, "weights": wsig, "ns": int(T.ns)}}


def summarize(cases_, results, tier):
    return {"point_evaluations": sum(r["stats"].get("evals", 0) for r in results),
            "distinct_weight_vectors": len({r["stats"].get("weights") for r in results}),
            "cases_with_slacks": sum(1 for r in results if r["stats"].get("ns", 0) > 0)}


def vacuity(cases_, results, tier):
    out = []
    if sum(1 for r in results if r["outcome"] in ("exact", "violating")) < 0.8 * len(results):
        out.append("fewer than 80% of the cases reached the comparison")
    return out
