"""C08 Stopping early returns exactly a prefix of the unlimited run."""
import numpy as np

from pgfmc.drive import grid as G
from pgfmc.drive import monitors as M
from pgfmc.drive import run as R

ID = "C08"
LEVEL = "fault_enumeration"
RULE = ("crash-point enumeration: for each (spec, controller, penalty policy, Newton type, scaling) a reference run R terminates naturally under "
        "a virtual clock that never expires; then EVERY iteration budget k = 0..len(R) and EVERY position j = 1..reads(R) of the deadline in the "
        "sequence of clock reads (loop-top checks, display reads, the exact controller's inner Newton loop) is executed as a separate run. "
        "Oracle: all trials before the stop byte-identical to R's; the last one identical or the interrupted form (same input, iterate unchanged, "
        "not accepted, lambda doubled); result = last accepted iterate of that prefix; status IterationLimit / TimeLimit (R's own status when the "
        "stop comes after R's last decision); at most one trial is computed after the deadline passed; counters consistent. "
        "distinct = (combo, stop kind, stop position)")
ASSUMPTIONS = ["the virtual clock replaces time.time in pygradflow.timer (the only clock the solver reads)",
               "horizon 40 iterations for R (a run that reaches the horizon is itself stopped by the limit and still serves as reference)"]
CASE_ALARM_S = 200
CASES_ALARM_S = 240
TIMEOUT_IS_VIOLATION = "a solve with an iteration limit / deadline did not return"
HOR = 40


class ClockSolver(R.RecSolver):
    clock = None

    def _compute_step(self, controller, iterate, rho, dt, display, timer):
        r0 = self.clock.reads
        res = super()._compute_step(controller, iterate, rho, dt, display, timer)
        self.spans.append((r0, self.clock.reads))
        return res


def combos(tier):
    specs = [G.core_specs()[0], G.core_specs()[3]] if tier == "quick" else G.core_specs()[:4] + [G.adversarial_specs()[0]]
    pens = ["DualNorm", "LagrangianFilter"] if tier == "quick" else R.PENALTIES
    out = []
    k = 0
    for spec in specs:
        for ctl in R.CONTROLS:
            for pen in pens:
                for nt in (("Simplified",) if tier == "quick" else ("Simplified", "Full")):
                    sc = G.scalings_of(spec, (0, 1))[k % 2]
                    k += 1
                    out.append((spec, {"control": ctl, "penalty": pen, "newton": nt}, sc))
        # every row displayed: the display timer is read and reset all the time, the deadline must not notice
        out.append((spec, {"control": "DistanceRatio", "penalty": "DualNorm", "newton": "Simplified", "display_interval": 0.0}, None))
        out.append((spec, {"control": "Exact", "penalty": "ObjectiveFilter", "newton": "Simplified", "display_interval": 2e-6}, None))
    # a 30-variable problem with the iterative linear solvers: nothing below the loop may depend on the limits
    from pgfmc.model import specs as S
    big = S.banded_qp(100, "mixed", 0)
    out.append((big, {"control": "DistanceRatio", "penalty": "DualNorm", "newton": "Simplified", "linear": "GMRES", "step_solver": "Standard"}, None))
    out.append((big, {"control": "DistanceRatio", "penalty": "DualNorm", "newton": "Simplified", "linear": "MINRES", "step_solver": "Symmetric"}, None))
    if tier != "quick":
        out.append((big, {"control": "Exact", "penalty": "DualNorm", "newton": "Full", "linear": "GMRES", "step_solver": "Asymmetric"}, None))
    # dense equality-constrained QP, 40 variables + 12 rows, Hessian spectrum spread over [1, 1e3]: GMRES needs several restart cycles
    import numpy as np
    rs = np.random.RandomState(7)
    n, m = 40, 12
    Qm, _ = np.linalg.qr(rs.normal(size=(n, n)))
    Hd = (Qm * np.logspace(0, 3, n)).dot(Qm.T)
    Hd = 0.5 * (Hd + Hd.T)
    Ad = rs.normal(size=(m, n))
    bd = Ad.dot(rs.normal(size=n))
    dense = G.raw(n, {"H": Hd.tolist(), "g": rs.normal(size=n).tolist()}, [{"a": Ad[i].tolist(), "b": 0.0, "lb": float(bd[i]), "ub": float(bd[i])} for i in range(m)],
                  ["-inf"] * n, ["inf"] * n, [0.0] * n, "dense_eq_qp_40x12", y0=[0.0] * m)
    out.append((dense, {"control": "DistanceRatio", "penalty": "DualNorm", "newton": "Simplified", "linear": "GMRES", "step_solver": "Standard"}, None))
    return out


def run(spec, cfg, sc, limit, expire_at, time_limit=1.0, work=None):
    c = dict(cfg)
    c["iteration_limit"] = limit
    c["params"] = {"time_limit": time_limit}
    clock = R.VirtualClock(expire_at=expire_at)
    clock.record_sites = True
    wrap = None
    if work is not None:
        # work clock: every callback evaluation takes one second (the `slow`-th one 50 s); time passes gradually, not in one jump
        from pgfmc.drive.problems import TickingProblem

        class Work(TickingProblem):
            def _tick(self_):
                self_.evals += 1
                clock.offset += 50.0 if self_.evals == work.get("slow") else 1.0

        def wrap(p):
            return Work(p, clock, 1.0)

    def pre(solver):
        solver.clock = clock
        solver.spans = []

    ctx = G.execute({"spec": spec, "cfg": c, "sc": sc}, clock=clock, solver_cls=ClockSolver, pre=pre, problem_wrap=wrap)
    ctx.clock = clock
    return ctx


def timer_start_read(clock):
    from pgfmc.drive.run import deadline_start_index

    i = deadline_start_index(clock)
    return None if i is None else i + 1


def cases(tier, seed):
    out = []
    for (spec, cfg, sc) in combos(tier):
        ref = run(spec, cfg, sc, HOR, None)
        if ref.rec is None or ref.rec.result is None:
            continue
        n = len(ref.rec.trials)
        reads = ref.clock.reads
        ks = list(range(0, min(n + 1, HOR) + 1))
        js = list(range(1, reads + 1))
        for i in range(0, len(ks), 16):
            out.append({"spec": spec, "cfg": cfg, "sc": sc, "kind": "iter", "stops": ks[i:i + 16]})
        for i in range(0, len(js), 16):
            out.append({"spec": spec, "cfg": cfg, "sc": sc, "kind": "clock", "stops": js[i:i + 16]})
        out.append({"spec": spec, "cfg": cfg, "sc": sc, "kind": "zero_deadline", "stops": [0.0, 1e-9]})
        if cfg.get("linear") is None and spec["n"] <= 3 and (tier != "quick" or (cfg["control"] == "Exact" and cfg.get("display_interval") is None)):
            # gradually passing time: EVERY whole-second deadline of a run in which each evaluation takes a second
            for slow in ((None, 7) if tier == "quick" else (None, 7, 19)):
                w = {"slow": slow}
                refw = run(spec, cfg, sc, HOR, None, time_limit=1e18, work=w)
                if refw.rec is None or refw.rec.result is None:
                    continue
                total = int(refw.clock.offset) + 2
                ts = [t + 0.5 for t in range(0, total)]
                for i in range(0, len(ts), 24):
                    out.append({"spec": spec, "cfg": cfg, "sc": sc, "kind": "work", "work": w, "stops": ts[i:i + 24]})
    return out


def run_case(case):
    spec, cfg, sc = case["spec"], case["cfg"], case["sc"]
    ref = run(spec, cfg, sc, HOR, None, time_limit=1e18, work=case["work"]) if case["kind"] == "work" else run(spec, cfg, sc, HOR, None)
    Rr = ref.rec
    viol, keys = [], []
    n = len(Rr.trials)
    spans = Rr.solver.spans
    tstart = timer_start_read(ref.clock)
    Rbytes = [t.bytes() for t in Rr.trials]
    # iterate of R after q trials
    def point_after(q):
        return Rr.trials[q].it_in if q < n else Rr.solver.final_iterate

    def acc_after(q):
        cnt = 0
        for i in range(q):
            nxt = point_after(i + 1)
            if nxt is Rr.trials[i].it_out and Rr.trials[i].it_out is not Rr.trials[i].it_in:
                cnt += 1
        return cnt

    stats = {"stops": 0, "interrupted": 0, "timelimit": 0}
    for stop in case["stops"]:
        stats["stops"] += 1
        at = {"kind": case["kind"], "stop": stop, "spec": spec["tag"], "cfg": cfg}

        def bad(what, msg):
            viol.append({"sig": f"C08|{case['kind']}|{what}", "msg": f"{what}: {msg} at {at}",
                         "case": dict(case, stops=[stop])})

        if case["kind"] == "zero_deadline":
            # the deadline has passed before the first step: the start itself is returned, nothing is computed
            ctx = run(spec, cfg, sc, HOR, None, time_limit=stop)
            rec = ctx.rec
            keys.append(f"{spec['tag']}|{G.cfg_key(cfg)}|zero_deadline|{stop}")
            if rec.result is None:
                bad("exception", f"{rec.exc}")
            else:
                r = rec.result
                if r.status.name != "TimeLimit" or r.iterations != 0 or len(rec.trials) != 0 or r.num_accepted_steps != 0:
                    bad("deadline_already_passed", f"time_limit={stop}: status {r.status.name}, {r.iterations} iterations, {len(rec.trials)} trial steps")
                elif not M.same(rec.solver.final_iterate, point_after(0)):
                    bad("deadline_already_passed", "the returned point is not the start")
            continue
        if case["kind"] == "iter":
            ctx = run(spec, cfg, sc, stop, None)
        elif case["kind"] == "work":
            ctx = run(spec, cfg, sc, HOR, None, time_limit=stop, work=case["work"])
        else:
            ctx = run(spec, cfg, sc, HOR, stop)
        rec = ctx.rec
        keys.append(f"{spec['tag']}|{G.cfg_key(cfg)}|{sc is not None}|{case['kind']}|{stop}")
        if rec.result is None:
            bad("exception", f"{rec.exc}")
            continue
        r = rec.result
        q = len(rec.trials)
        if r.iterations != q or len(rec.cb) != q:
            bad("counters", f"iterations={r.iterations} callbacks={len(rec.cb)} trials={q}")
        if q > n:
            bad("longer_than_reference", f"{q} trials, reference has {n}")
            continue
        interrupted = False
        for i in range(q):
            same = rec.trials[i].bytes() == Rbytes[i]
            if not same:
                t, t0 = rec.trials[i], Rr.trials[i]
                is_int = (i == q - 1 and np.array_equal(t.it_in.x, t0.it_in.x) and np.array_equal(t.it_in.y, t0.it_in.y)
                          and t.rho == t0.rho and t.dt == t0.dt and not t.accepted and M.same(t.it_out, t.it_in)
                          and t.lamb == 2.0 * (1.0 / t.dt))
                if is_int and case["kind"] in ("clock", "work"):
                    interrupted = True
                else:
                    bad("trial_differs", f"trial {i} of {q} differs from the unlimited run (dt {t.dt!r} vs {t0.dt!r}, accepted {t.accepted} vs {t0.accepted})")
                    break
        if interrupted:
            stats["interrupted"] += 1
        # returned point = last accepted iterate of the prefix
        qq = q - 1 if interrupted else q
        want = point_after(qq)
        fin = rec.solver.final_iterate
        if not M.same(fin, want):
            bad("result_not_prefix_state", f"returned iterate {fin.x.tolist()} but the unlimited run had {want.x.tolist()} after {qq} trials")
        if r.num_accepted_steps != acc_after(qq):
            bad("accepted_count", f"num_accepted_steps={r.num_accepted_steps}, prefix has {acc_after(qq)}")
        # status and stopping position
        if case["kind"] == "iter":
            exp = "IterationLimit" if stop <= n else Rr.result.status.name
            if r.status.name != exp:
                bad("status", f"status {r.status.name}, expected {exp} (budget {stop}, natural length {n})")
            if q != min(stop, n):
                bad("length", f"{q} trials with budget {stop} (natural length {n})")
        elif case["kind"] == "work":
            # the solve ends at its natural end, or with TimeLimit after the deadline has passed on the work clock
            if r.status.name == "TimeLimit":
                stats["timelimit"] += 1
                if ctx.clock.offset + 1.0 < stop:
                    bad("time_limit_before_deadline", f"TimeLimit although only {ctx.clock.offset:.0f} s of work were done (deadline {stop})")
            elif q != n or r.status.name != Rr.result.status.name:
                bad("status", f"status {r.status.name} after {q} trials; the unlimited run ends {Rr.result.status.name} after {n}")
            if interrupted:
                stats["interrupted"] += 1
        else:
            if tstart is None or stop <= tstart:
                # the deadline position precedes the timer's own start read: the clock never appears expired
                if q != n or r.status.name != Rr.result.status.name:
                    bad("early_clock_changes_run", f"{q} trials / {r.status.name} vs reference {n} / {Rr.result.status.name}")
            else:
                # deadline checks of R in read order: loop-top checks (k-th one belongs to iteration k) and
                # checks inside a step computation (exact controller's Newton loop)
                checks = []
                top_k = 0
                for i, ch in enumerate(ref.clock.sites):
                    if "reached_time_limit" in ch:
                        # a deadline check made while a trial is being computed is an inner one; all others are the loop's own
                        t_in = next((ti for ti, (s0, e0) in enumerate(spans) if s0 < i + 1 <= e0), None)
                        if t_in is None:
                            checks.append((i + 1, "top", top_k))
                            top_k += 1
                        else:
                            checks.append((i + 1, "inner", t_in))
                fire = next((c for c in checks if c[0] >= stop), None)
                if fire is None:
                    if q != n or r.status.name != Rr.result.status.name:
                        bad("late_clock_changes_run", f"{q} trials / {r.status.name} vs reference {n} / {Rr.result.status.name}")
                else:
                    stats["timelimit"] += 1
                    if fire[1] == "top":
                        exp_q, exp_status, exp_int = fire[2], "TimeLimit", False
                    else:
                        exp_q = fire[2] + 1
                        exp_status = "IterationLimit" if exp_q >= HOR else "TimeLimit"
                        exp_int = True
                    if r.status.name != exp_status:
                        bad("status", f"status {r.status.name}, expected {exp_status} (deadline at read {stop}, first check to see it: {fire})")
                    if q != exp_q:
                        bad("stopped_at_wrong_trial", f"{q} trials computed, expected {exp_q} (deadline at read {stop}, first check to see it: {fire})")
                    if exp_int != interrupted and q == exp_q:
                        bad("interrupted_form", f"last trial interrupted={interrupted}, expected {exp_int}")
    seen, vs = set(), []
    for v in viol:
        if v["sig"] not in seen:
            seen.add(v["sig"]); vs.append(v)
    return {"outcome": "prefix" if not viol else "violating", "key": keys, "violations": vs, "stats": stats}


def summarize(cases_, results, tier):
    s = {k: sum(r["stats"].get(k, 0) for r in results) for k in ("stops", "interrupted", "timelimit")}
    return {"evaluations": s["stops"], "stop_points": s["stops"], "interrupted_inner_loop_stops": s["interrupted"], "time_limit_stops": s["timelimit"]}


def vacuity(cases_, results, tier):
    s = summarize(cases_, results, tier)
    out = []
    if s["interrupted_inner_loop_stops"] < 20:
        out.append("fewer than 20 deadline positions inside the exact controller's Newton loop")
    if s["time_limit_stops"] < 200:
        out.append("fewer than 200 TimeLimit stops")
    return out
