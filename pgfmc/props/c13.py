"""C13 Residuals and augmented-Lagrangian derivatives match their definitions."""
import itertools

import numpy as np

from pgfmc.model import specs as S
from pgfmc.model import oracle as O

ID = "C13"
LEVEL = "exploration"
RULE = ("grid: spec (objective x nonlinear/affine rows x row kinds x variable kinds) x scaling {none, custom} ; per case a "
        "covering lattice of primal points (each component inside / on / outside / within active_tol of each finite bound) x "
        "3 multipliers x 3 rho for the Iterate quantities, and (multiplier, rho, dt) combinations x ALL 2^n active sets for "
        "ImplicitFunc value/Jacobian/projection; keep_rows over all row filters x 3 formats; oracle = dense numpy reference, "
        "relative tolerance 1e-12; distinct = (spec tag, scaling, point) with a bound or constraint term that is non-trivial")
ASSUMPTIONS = ["relative tolerance 1e-12 (same formulas, different summation order)",
               "boolean predicates are compared only when the reference margin exceeds 1e-9 relative",
               "n<=2 user variables, m<=2 rows (internal dimension <= 4)"]
CASE_ALARM_S = 300

RHOS = [1e-8, 1.0, 100.0]
DTS = [1e-3, 1.0, 50.0]
TOL = 1e-12


def cases(tier, seed):
    out = []
    if tier == "quick":
        vks = [["boxed"], ["lower", "upper"], ["boxed", "free"], ["fixed", "boxed"], ["bigbox", "bigupper"], ["intbox", "intbox"], ["narrowbox", "boxed"]]
        objs = ["cubic", "rosen"]
        rowsets = [[("sphere", "ranged")], [("bilinear", "eq0"), ("affine", "upper")], [("sphere", "eqoff"), ("bilinear", "lower")], []]
        scs = [0, 1]
    else:
        vks = [list(v) for n in (1, 2) for v in itertools.product(S.VAR_KINDS, repeat=n)] + [["bigbox", "bigupper"], ["bigbox"], ["boxed", "bigupper"], ["intbox", "intbox"], ["intbox"], ["narrowbox", "boxed"], ["narrowbox"], ["free", "narrowbox"]]
        objs = ["cubic", "rosen", "qfull"]
        rowsets = [[], [("sphere", "ranged")], [("affine", "eqoff")], [("cubic", "lower")],
                   [("bilinear", "eq0"), ("affine", "upper")], [("sphere", "eqoff"), ("bilinear", "lower")],
                   [("sphere", "upper"), ("cubic", "ranged")]]
        scs = [0, 1, 2]
    for vk in vks:
        for rows in rowsets:
            for obj in objs:
                if obj == "exp" and any(k.startswith("big") for k in vk):
                    continue  # exp(1e6) is not finite: outside "all finite data"
                for si in scs:
                    out.append({"n": len(vk), "vk": vk, "rows": [list(r) for r in rows], "obj": obj, "si": si})
    # non-default activity tolerances (0 is a supported value: only points exactly on a bound are active)
    for vk in vks[:4] + [["fixed", "boxed"]]:
        for rows in rowsets[:2]:
            for atol in (0.0, 1e-4):
                out.append({"n": len(vk), "vk": vk, "rows": [list(r) for r in rows], "obj": objs[0], "si": 0, "active_tol": atol})
    return out


def positions(lo, hi, active_tol):
    ps = []
    if np.isfinite(lo) and np.isfinite(hi):
        if lo == hi:
            return [lo, lo - 0.5, lo + 0.25]
        ps = [0.5 * (lo + hi), lo, hi, lo - 0.5, hi + 0.25, lo + 0.25 * active_tol, hi - 2.0 * active_tol, lo - 0.5 * active_tol, hi + 0.5 * active_tol]
    elif np.isfinite(lo):
        ps = [lo + 0.75, lo, lo - 0.5, lo + 0.25 * active_tol, lo - 0.5 * active_tol]
    elif np.isfinite(hi):
        ps = [hi - 0.75, hi, hi + 0.25, hi - 0.25 * active_tol, hi + 0.5 * active_tol]
    else:
        ps = [0.3, -1.7]
    return ps


def covering(poslists):
    """Deterministic covering table: every position of every component appears, and every
    pair (position of component i, shift) combination for a few shifts."""
    L = max(len(p) for p in poslists)
    pts, seen = [], set()
    for shift in range(min(3, L)):
        for k in range(L):
            pt = tuple(p[(k + shift * j) % len(p)] for j, p in enumerate(poslists))
            if pt not in seen:
                seen.add(pt)
                pts.append(np.array(pt))
    return pts


def close(a, b, scale=None):
    a = np.asarray(a, dtype=float)
    b = np.asarray(b, dtype=float)
    if a.shape != b.shape:
        return False
    if not (np.isfinite(a) == np.isfinite(b)).all():
        return False
    fin = np.isfinite(b)
    if scale is None:
        scale = max(1.0, float(np.max(np.abs(b[fin]), initial=0.0)))
    return bool(np.all(np.abs(a[fin] - b[fin]) <= TOL * scale))


def run_case(case):
    from pygradflow.implicit_func import ImplicitFunc
    from pygradflow.iterate import Iterate
    from pygradflow.transform import Transformation
    from pygradflow.util import keep_rows
    from pgfmc.drive.problems import UserProblem
    from pgfmc.drive.run import make_params

    n = case["n"]
    spec = S.mk(n, case["obj"], [tuple(r) for r in case["rows"]], case["vk"], fmt=["coo", "csr", "csc"][case["si"] % 3])
    m = len(case["rows"])
    sc = S.scalings(n, m, [0.625, -1.25][:n])[case["si"]]
    prob = UserProblem(spec)
    params = make_params({"params": {"active_tol": case["active_tol"]}} if "active_tol" in case else {}, sc)
    tr = Transformation(prob, params)
    P, ev = tr.trans_problem, tr.evaluator
    F = O.Funcs(spec)
    scal = tr.scaling
    T = O.RefTrans(F) if scal is None else O.RefTrans(F, scal.var_weights, scal.cons_weights, scal.obj_weight)
    atol_act = params.active_tol
    viol, nchk, nfeas = [], [0], [0]
    keys = []

    def bad(what, got, want, at):
        if len(viol) < 40:
            viol.append({"sig": f"C13|{what}", "msg": f"{what}: got {np.asarray(got).tolist()} want {np.asarray(want).tolist()} at {at}",
                         "detail": at})

    def chk(what, got, want, at, scale=None):
        nchk[0] += 1
        if not close(got, want, scale):
            bad(what, got, want, at)

    pts = covering([positions(lo, hi, atol_act) for lo, hi in zip(T.var_lb, T.var_ub)])
    # exactly feasible points (every internal constraint value is bitwise zero): slacks set to the row values; for equality rows the point
    # is first moved onto the row by bisection-free exact constructions where possible (affine rows with dyadic data)
    if m > 0 and T.ns == m:
        # all rows carry a slack: slack := row value (clipped into the slack's bounds) gives c - s = 0 exactly where the clip is inactive
        for xq in list(pts[:6]):
            xz = np.array(xq, dtype=float).copy()
            xz[T.F.n:] = 0.0
            cz = T.cons(xz)
            xz[T.F.n:] = np.clip(cz[T.slack_pos], T.var_lb[T.F.n:], T.var_ub[T.F.n:])
            if not np.any(T.cons(xz)):
                pts.append(xz)
                nfeas[0] += 1
    ys = [np.zeros(m), np.array([1.5, -2.0][:m]), np.array([-0.5, 0.25][:m])]
    x0 = np.clip(np.array([0.2, -0.3, 0.1, 0.4][: T.n]), T.var_lb, T.var_ub)
    combos = list(itertools.product(range(3), range(3), range(3)))
    ci = 0
    for pi, x in enumerate(pts):
        for yi_, y in enumerate(ys):
            it = Iterate(P, params, x, y, ev)
            R = O.RefPoint(T, x, y, active_tol=atol_act)
            at = {"x": x.tolist(), "y": y.tolist()}
            with np.errstate(all="ignore"):
                mag = max(1.0, abs(R.f), float(np.max(np.abs(R.g), initial=0)), float(np.max(np.abs(R.c), initial=0)),
                          float(np.max(np.abs(R.J), initial=0)) * max(1.0, float(np.max(np.abs(y), initial=0))))
                chk("cons_violation", it.cons_violation, R.cons_violation, at)
                chk("bound_violation", it.bound_violation, R.bound_violation, at)
                chk("bounds_dual", it.bounds_dual, R.bounds_dual, at, mag)
                chk("stat_res", it.stat_res, R.stat_res, at, mag)
                chk("total_res", it.total_res, R.total_res, at, mag)
                chk("aug_lag_deriv_y", it.aug_lag_deriv_y(), R.c, at)
                chk("aug_lag_deriv_xy", it.aug_lag_deriv_xy().toarray() if m else np.zeros((0, T.n)), R.J, at)
                for name, a, b in (("at_lower", it.active_set.at_lower, R.at_lower), ("at_upper", it.active_set.at_upper, R.at_upper),
                                   ("at_both", it.active_set.at_both, R.at_both)):
                    nchk[0] += 1
                    if not np.array_equal(a, b):
                        bad("active_set." + name, a, b, at)
                # predicates, away from their thresholds
                for tol in (1e-6, 0.3):
                    cv, bv = R.cons_violation, R.bound_violation
                    if all(abs(v - tol) > 1e-9 * max(1.0, tol) for v in (cv, bv)):
                        nchk[0] += 1
                        if bool(it.is_feasible(tol)) != (cv <= tol and bv <= tol):
                            bad("is_feasible", it.is_feasible(tol), cv <= tol and bv <= tol, at)
                    st = R.infeas_stationarity()
                    for itol in (1e-8, 0.5):
                        if abs(cv - tol) > 1e-9 and abs(st - itol) > 1e-9 * max(1.0, st):
                            nchk[0] += 1
                            want = R.locally_infeasible(tol, itol)
                            if bool(it.locally_infeasible(tol, itol)) != want:
                                bad("locally_infeasible", it.locally_infeasible(tol, itol), want, at)
                for rho in RHOS:
                    at2 = dict(at, rho=rho)
                    Hr = R.dxx(rho)
                    chk("aug_lag", it.aug_lag(rho), R.aug_lag(rho), at2, max(mag, rho * float(R.c.dot(R.c)), abs(R.aug_lag(rho))))
                    chk("aug_lag_deriv_x", it.aug_lag_deriv_x(rho), R.dx(rho), at2,
                        max(mag, float(np.max(np.abs(R.J), initial=0)) * rho * max(1.0, float(np.max(np.abs(R.c), initial=0)))))
                    chk("aug_lag_deriv_xx", it.aug_lag_deriv_xx(rho).toarray(), Hr, at2, max(1.0, float(np.max(np.abs(Hr)))) * 4)
            # implicit function for 3 of the 27 (y0-variant, rho, dt) combinations, all active sets
            for sub in range(3):
                yk, rk, dk = combos[ci % 27]
                ci += 1
                rho, dt = RHOS[rk], DTS[dk]
                y0 = ys[yk]
                it0 = Iterate(P, params, x0, y0, ev)
                func = ImplicitFunc(P, it0, dt)
                if sub == 0:
                    # one function object, one iterate object, several penalties in turn (no result may depend on an earlier rho)
                    for rho_other in RHOS:
                        p_o = O.implicit_p(T, (x0, y0), R, rho_other, dt)
                        with np.errstate(all="ignore"):
                            A_o = O.implicit_active(T, p_o)
                            mg = np.minimum(np.abs(p_o - (T.var_lb - 1e-8)), np.abs(p_o - (T.var_ub + 1e-8)))
                            if (mg > 1e-9 * max(1.0, float(np.max(np.abs(p_o))))).all():
                                want_o = O.implicit_value(T, (x0, y0), R, rho_other, dt, A_o)
                                chk("value_at(same object, other rho)", func.value_at(it, rho_other), want_o,
                                    dict(at, rho=rho_other, dt=dt, y0=y0.tolist()), max(1.0, float(np.max(np.abs(p_o))), float(np.max(np.abs(want_o)))))
                at3 = dict(at, rho=rho, dt=dt, y0=y0.tolist())
                with np.errstate(all="ignore"):
                    p_ref = O.implicit_p(T, (x0, y0), R, rho, dt)
                    sc_p = max(1.0, float(np.max(np.abs(p_ref))))
                    chk("projection_initial", func.projection_initial(it, rho), p_ref, at3, sc_p)
                    act_ref = O.implicit_active(T, p_ref)
                    margin = np.minimum(np.abs(p_ref - (T.var_lb - 1e-8)), np.abs(p_ref - (T.var_ub + 1e-8)))
                    if (margin > 1e-9 * sc_p).all():
                        nchk[0] += 1
                        got = func.compute_active_set(it, rho)
                        if not np.array_equal(got, act_ref):
                            bad("compute_active_set", got, act_ref, at3)
                        # default active set: value equals x - P_C(p) up to the 1e-8 activity threshold
                        full = np.concatenate([x - np.clip(p_ref, T.var_lb, T.var_ub), y - (y0 + dt * R.c)])
                        nchk[0] += 1
                        v = func.value_at(it, rho)
                        if not np.all(np.abs(v - full) <= 1e-8 + TOL * max(sc_p, float(np.max(np.abs(full))))):
                            bad("value_at(default)", v, full, at3)
                    Jscale = max(1.0, dt * float(np.max(np.abs(R.dxx(rho)))), dt * float(np.max(np.abs(R.J), initial=0)))
                    for bits in itertools.product([False, True], repeat=T.n):
                        A = np.array(bits, dtype=bool)
                        at4 = dict(at3, active=[int(b) for b in bits])
                        want = O.implicit_value(T, (x0, y0), R, rho, dt, A)
                        chk("value_at", func.value_at(it, rho, A), want, at4, max(sc_p, float(np.max(np.abs(want)))))
                        chk("deriv_at", func.deriv_at(it, rho, A).toarray(), O.implicit_jac(T, R, rho, dt, A), at4, Jscale)
                        pr = func.project(p_ref, A)
                        nchk[0] += 1
                        if not (np.array_equal(pr[~A], p_ref[~A]) and (pr[A] >= T.var_lb[A]).all() and (pr[A] <= T.var_ub[A]).all()
                                and np.array_equal(pr[A], np.clip(p_ref[A], T.var_lb[A], T.var_ub[A]))):
                            bad("project", pr, p_ref, at4)
        if T.ns or (np.isfinite(T.var_lb).any() or np.isfinite(T.var_ub).any()):
            keys.append(f"{spec['tag']}|{case['si']}|{pi}")
    # keep_rows on the Jacobian-like matrices of this case
    import scipy.sparse as sps
    M = np.arange(1.0, 1.0 + (T.n + 1) * (T.n + 1)).reshape((T.n + 1, T.n + 1)) * np.tri(T.n + 1, T.n + 1, 1)
    for fmt in ("coo", "csr", "csc"):
        sm = sps.coo_matrix(M).asformat(fmt)
        for bits in itertools.product([False, True], repeat=T.n + 1):
            flt = np.array(bits, dtype=bool)
            before = sm.toarray()
            views = [sm, sm.T, sm.T.T]   # transposed views share storage with the original
            got = keep_rows(sm, flt).toarray()
            want = M * flt[:, None]
            nchk[0] += 1
            if not np.array_equal(got, want):
                bad("keep_rows", got, want, {"filter": [int(b) for b in bits], "fmt": fmt})
            if flt.shape[0] == sm.T.shape[0]:
                keep_rows(views[1], flt)
            nchk[0] += 1
            if not np.array_equal(sm.toarray(), before):
                bad("keep_rows_modifies_argument", sm.toarray(), before, {"filter": [int(b) for b in bits], "fmt": fmt})
    seen, vs = set(), []
    for v in viol:
        if v["sig"] not in seen:
            seen.add(v["sig"]); vs.append(v)
    return {"outcome": "match" if not viol else "violating", "key": keys, "violations": vs,
            "stats": {"checks": nchk[0], "points": len(pts)}}


def summarize(cases_, results, tier):
    return {"comparisons": sum(r["stats"].get("checks", 0) for r in results),
            "points": sum(r["stats"].get("points", 0) for r in results)}
