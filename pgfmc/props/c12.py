"""C12 Counters, callbacks and the recorded path tell one consistent story."""
from pgfmc.drive import grid as G
from pgfmc.drive import monitors as M
from . import _loop as L

ID = "C12"
LEVEL = "model_checking"
RULE = ("(a) scripted-loop model checking: the real Solver.solve loop on a toy problem with scripted step controller, penalty policy and clock; "
        "ALL environment answer sequences of depth 6 with at most 2 (quick) / 3 (thorough) deviations from the default route - deviations: "
        "controller answer (accept/reject x next point x lambda factor, StepSolverError, EvalError, unevaluable accepted point, lambda >= max), "
        "penalty answer (x10, veto), iteration limit 0..6, clock expiry at read 1..16, start point, initial lambda - each execution compared with "
        "the reference loop model (callbacks, counters, final point, path, model times); (b) the same reference as a trace checker over complete "
        "real runs (core/adversarial specs x configurations incl. vetoing filters, collect_path on). states/transitions = canonical model states "
        "(iteration, accepted, point, log2 lambda, log10 rho_solver, log10 rho_policy, status)")
ASSUMPTIONS = ["the toy pool has 9 points; only their classification matters to the loop",
               "real-run part: horizon 80 iterations; identity of Iterate objects is used to decide whether the iterate changed"]
CASE_ALARM_S = 300
TIMEOUT_IS_VIOLATION = "a solve with an iteration limit did not return"
FILTERS = ("ObjectiveFilter", "LagrangianFilter")
_PREV = None


def run_table(tier, seed):
    specs = G.core_specs() + G.adversarial_specs()[:6] + G.outside_start_specs()[2:]
    cfgs = G.configs_star() if tier == "quick" else G.configs_pairs()
    out = []
    for si, spec in enumerate(specs):
        for ci, cfg in enumerate(cfgs):
            c = dict(cfg); c["iteration_limit"] = 80; c["params"] = {"collect_path": True}
            sc = G.scalings_of(spec, (0, 1))[(si + ci) % 2]
            out.append({"t": "run", "spec": spec, "cfg": c, "sc": sc})
    # single precision (iterates and path in float32, step sizes and model times in double), non-dyadic step sizes
    for si, spec in enumerate(G.core_specs()):
        for ctl in ("DistanceRatio", "Fixed", "ResiduumRatio"):
            for linit in (1.0, 3.0):
                for vi in (True, False):
                    c = {"control": ctl, "iteration_limit": 40,
                         "params": {"collect_path": True, "precision": "Single", "lamb_init": linit, "validate_input": vi}}
                    out.append({"t": "run", "spec": spec, "cfg": c, "sc": G.scalings_of(spec, (0, 1))[si % 2]})
    # accepted steps too short to move the point (huge inverse step size, iterates of magnitude 1e8): still one path column each
    far = G.raw(3, {"H": [[1.0, 0.0, 0.0], [0.0, 2.0, 0.0], [0.0, 0.0, 0.5]], "g": [-1e8, -2e8, -0.5e8]}, [], ["-inf", "-inf", "-inf"], ["inf", "inf", "inf"],
                [1e8 + 3.0, 1e8 - 2.0, 1e8 + 1.0], "stalled_steps|1e8")
    for ctl in ("DistanceRatio", "Fixed", "ResiduumRatio"):
        for linit in (1e10, 1e13):
            out.append({"t": "run", "spec": far, "cfg": {"control": ctl, "iteration_limit": 60, "params": {"collect_path": True, "lamb_init": linit, "lamb_max": 1e30, "obj_lower_limit": -1e30}}, "sc": None})
    # long paths: thousands of accepted steps with path collection
    for prec in ("Double", "Single"):
        c = {"control": "Fixed", "iteration_limit": 2600 if tier == "quick" else 9000,
             "params": {"collect_path": True, "precision": prec, "lamb_init": 400.0}}
        out.append({"t": "run", "spec": G.core_specs()[0], "cfg": c, "sc": None})
    return out


def cases(tier, seed):
    out = [dict(c, t="loop") for c in L.cases(tier, seed)]
    return out + run_table(tier, seed)


def run_case(case):
    if case["t"] == "loop":
        return L.run_chunk(case, ID)
    from pgfmc.drive.run import outcome_of

    ctx = G.execute(case)
    if ctx.setup_error is not None:
        return {"outcome": "setup:" + type(ctx.setup_error).__name__, "key": None, "violations": [], "stats": {}}
    viol = M.mon_c12(ctx.rec, ctx.F, ctx.weights, ctx.params, case["spec"]["x0"], case["spec"].get("y0"),
                     case["cfg"].get("penalty") in FILTERS)
    from pgfmc.drive import run as R
    if ctx.rec.result is not None:
        # an observer registered BETWEEN two solves on one solver object must hear every step of the second one
        from pygradflow.callbacks import CallbackType
        late = []
        ctx.rec.solver.callbacks.register(CallbackType.ComputedStep, lambda a, b, acc: late.append((a, b, bool(acc))))
        rec2 = R.run_solve(ctx.rec.solver.orig_problem, ctx.params, case["spec"]["x0"], case["spec"].get("y0"), solver=ctx.rec.solver)
        if rec2.result is not None and len(late) != rec2.result.iterations:
            viol.append(M.V("C12|second_solve|late_observer", f"an observer registered after the first solve heard {len(late)} steps of a second solve "
                            f"with {rec2.result.iterations} iterations"))
        elif rec2.result is not None and any(not (M.same(l[0], t.it_in) and M.same(l[1], t.it_out) and l[2] == t.accepted) for l, t in zip(late, rec2.trials)):
            viol.append(M.V("C12|second_solve|late_observer_mismatch", "an observer registered after the first solve was announced other steps than those computed"))
        for v in M.mon_c12(rec2, ctx.F, ctx.weights, ctx.params, case["spec"]["x0"], case["spec"].get("y0"),
                           case["cfg"].get("penalty") in FILTERS):
            viol.append(dict(v, sig=v["sig"].replace("C12|", "C12|second_solve|")))
    import numpy as np
    global _PREV
    if _PREV is not None:
        pr, ppath, ptimes, ptag = _PREV
        if pr.path is None or pr.path.shape != ppath.shape or not np.array_equal(pr.path, ppath) or not np.array_equal(pr.model_times, ptimes):
            viol.append(M.V("C12|earlier_result_changed", f"the path/model_times of the result of an earlier solve ({ptag}) changed after a later solve in the same process"))
    r = ctx.rec.result
    _PREV = (r, np.array(r.path, copy=True), np.array(r.model_times, copy=True), case["spec"]["tag"]) if r is not None and r.path is not None else None
    rej = sum(1 for t in ctx.rec.trials if not t.accepted)
    return {"outcome": outcome_of(ctx.rec), "key": f"{case['spec']['tag']}|{G.cfg_key(case['cfg'])}|{ctx.weights}" if rej else None,
            "violations": viol, "stats": {"run": 1, "trials": len(ctx.rec.trials), "rejected": rej}}


def summarize(cases_, results, tier):
    m = L.merge(results)
    runs = sum(r["stats"].get("run", 0) for r in results)
    return {"states": m["loop_states"], "transitions": m["loop_transitions"],
            "traces_validated_against_impl": m["loop_executions"] + runs, "evaluations": m["loop_executions"] + runs,
            "loop_executions": m["loop_executions"], "real_runs_trace_checked": runs, "loop_outcomes": m["loop_outcomes"],
            "real_trials": sum(r["stats"].get("trials", 0) for r in results),
            "real_rejected_trials": sum(r["stats"].get("rejected", 0) for r in results)}


def samples(cases_, results):
    m = L.merge(results)
    return [m["loop_sample"]]
