"""C18 The penalty filter is a Pareto front.

Explicit-state BFS over the *real* PenaltyFilter objects: a state is the filter's
ordered entry list plus its penalty exponent; each transition calls the real
`update` (and `filter_insert`) with one pair from a small value grid.  Every
transition is compared with a set-based reference model.
"""
import collections

import numpy as np

ID = "C18"
LEVEL = "model_checking"
RULE = ("BFS over all insertion sequences of pairs from V x V up to the depth bound, "
        "executed on the real filter object (rebuilt by replaying the history); "
        "distinct = canonical states (sorted entry set, penalty exponent); every "
        "transition compared with a reference antichain model")
ASSUMPTIONS = [
    "values outside the grid V x V are not explored (the filter only compares, so "
    "only the order type of the values matters)",
    "fake iterates supply the (objective, violation) pair; the solver's use of the veto is C12/C16",
]
SERIAL = False
CASE_ALARM_S = 400

TABLE = {
    "quick": {"V": [0, 1, 2], "depth": 5},
    "thorough": {"V": [0, 1, 2, 3], "depth": 6},
}


class FakeIterate:
    def __init__(self, a, b):
        self.a, self.b = float(a), float(b)

    # ObjectivePenaltyFilter
    @property
    def obj(self):
        return self.a

    @property
    def cons_violation(self):
        return self.b

    # LagrangianPenaltyFilter: pair = (|lag_x|^2 + |lag_y|^2, |cons|)
    def aug_lag_deriv_x(self, rho):
        return np.array([self.a])

    def aug_lag_deriv_y(self):
        return np.array([0.0])

    @property
    def cons(self):
        return np.array([self.b])


def pair_of(kind, a, b):
    if kind == "Objective":
        return (float(a), float(b))
    return (float(a) * float(a), float(b))


class FakeProblem:
    def __init__(self, num_cons):
        self.num_cons = num_cons
        self.num_vars = 2
        self.var_bounded = False


NUM_CONS = 2


def make_filter(kind, rho0, num_cons=None, single=False):
    from pygradflow.params import Params, Precision
    from pygradflow import penalty

    params = Params(rho=rho0, precision=Precision.Single) if single else Params(rho=rho0)
    cls = penalty.ObjectivePenaltyFilter if kind == "Objective" else penalty.LagrangianPenaltyFilter
    return cls(FakeProblem(NUM_CONS if num_cons is None else num_cons), params)


class RefFilter:
    """Reference: a set of pairs and a penalty value."""

    def __init__(self, rho0):
        self.entries = set()
        self.rho = rho0

    def update(self, p):
        refused = any(e[0] <= p[0] and e[1] <= p[1] for e in self.entries)
        if refused:
            self.rho = self.rho * 10.0
            return False
        self.entries = {e for e in self.entries if not (p[0] <= e[0] and p[1] <= e[1])}
        self.entries.add(p)
        return True


def is_antichain(entries):
    es = list(entries)
    for i, e in enumerate(es):
        for j, f in enumerate(es):
            if i != j and e[0] <= f[0] and e[1] <= f[1]:
                return False
    return True


def cases(tier, seed):
    t = TABLE[tier]
    out = []
    for kind in ["Objective", "Lagrangian"]:
        for rho0 in [1e-8, 1.0]:
            for api in ["update", "filter_insert"]:
                for nc in ((2,) if api == "filter_insert" else (2, 0)):   # the filter must behave the same on a problem without constraints
                    out.append({"kind": kind, "rho0": rho0, "api": api, "V": t["V"], "depth": t["depth"], "num_cons": nc})
    # long anti-chains (the filter has no capacity): N mutually non-dominated entries inserted in three orders, then EVERY probe that is
    # dominated by exactly one stored entry, that dominates a block of entries, or that is new - in lock step with the reference set
    for kind in ["Objective", "Lagrangian"]:
        for api in ["update", "filter_insert"]:
            for N in ((40, 300, 1500, 3000) if tier == "quick" else (40, 300, 1500, 3000, 6000)):
                for order in ("asc", "desc", "inside_out"):
                    out.append({"kind": kind, "api": api, "chain": N, "order": order, "rho0": 1.0 if api == "filter_insert" else 1e-300})
    # the same with working precision Single and coordinates (Python floats, as a user objective returns them) that differ by less than the
    # resolution of single precision: the filter's verdicts and entries are defined on the values it is given
    for api in ["update", "filter_insert"]:
        for N in (40, 300):
            for order in ("asc", "desc", "inside_out"):
                out.append({"kind": "Objective", "api": api, "chain": N, "order": order, "rho0": 1.0 if api == "filter_insert" else 1e-300, "fine": True})
    # double precision, coordinates that differ by single units in the last place
    for api in ["update", "filter_insert"]:
        for order in ("asc", "desc", "inside_out"):
            out.append({"kind": "Objective", "api": api, "chain": 60, "order": order, "rho0": 1.0 if api == "filter_insert" else 1e-300, "ulp": True})
    # E5: TLC-enumerated state graph of tla/PenaltyFilter.tla, every edge replayed on the implementation
    out.append({"kind": "tlc", "V": [0, 1, 2], "K": 2, "rho0": 1e-8})
    if tier == "thorough":
        out.append({"kind": "tlc", "V": [0, 1, 2, 3], "K": 3, "rho0": 1.0})
    return out


def tlc_case(case):
    """E5: enumerate the reachable graph of tla/PenaltyFilter.tla with TLC and replay EVERY edge on the real filter."""
    import os
    import re
    import shutil
    import subprocess
    import tempfile

    here = os.path.dirname(os.path.dirname(os.path.dirname(os.path.abspath(__file__))))
    tmp = tempfile.mkdtemp(prefix="pgfmc_tlc_")
    try:
        for f in ("PenaltyFilter.tla", "PenaltyFilter.cfg"):
            shutil.copy(os.path.join(here, "tla", f), tmp)
        cfg = open(os.path.join(tmp, "PenaltyFilter.cfg")).read()
        cfg = re.sub(r"V = \{[^}]*\}", "V = {" + ", ".join(str(v) for v in case["V"]) + "}", cfg)
        cfg = re.sub(r"K = \d+", f"K = {case['K']}", cfg)
        open(os.path.join(tmp, "PenaltyFilter.cfg"), "w").write(cfg)
        p = subprocess.run(["tlc", "-workers", "1", "-noGenerateSpecTE", "-deadlock", "-metadir", os.path.join(tmp, "meta"),
                            "-dump", "dot,actionlabels", os.path.join(tmp, "g.dot"), "PenaltyFilter"],
                           cwd=tmp, capture_output=True, text=True, timeout=1500)
        if "No error has been found" not in p.stdout:
            return {"outcome": "tlc-failed", "key": None, "violations": [], "stats": {},
                    "harness_error": "TLC did not finish cleanly (invariant Pareto/TypeOK of the model violated or tool error):\n" + p.stdout[-1500:]}
        nodes, edges = {}, []
        for line in open(os.path.join(tmp, "g.dot")):
            m = re.match(r'^(-?\d+) -> (-?\d+) \[label="Insert\((\d+),(\d+)\)"', line)
            if m:
                edges.append((m.group(1), m.group(2), int(m.group(3)), int(m.group(4))))
                continue
            m = re.match(r'^(-?\d+) \[label="(.*?)"[,\]]', line)
            if m:
                lab = m.group(2)
                ent = re.search(r"entries = \{(.*?)\}", lab).group(1)
                pairs = frozenset((int(a), int(b)) for a, b in re.findall(r"<<(\d+), (\d+)>>", ent))
                k = int(re.search(r"k = (\d+)", lab).group(1))
                verdict = re.search(r'last = <<\d+, \d+, \\"(\w+)\\">>', lab).group(1)
                nodes[m.group(1)] = (pairs, k, verdict)
    finally:
        shutil.rmtree(tmp, ignore_errors=True)
    init = next(n for n, v in nodes.items() if v[2] == "init")
    parent = {init: None}
    order = [init]
    adj = {}
    for u, v, a, b in edges:
        adj.setdefault(u, []).append((v, a, b))
    qi = 0
    while qi < len(order):
        u = order[qi]; qi += 1
        for v, a, b in adj.get(u, []):
            if v not in parent:
                parent[v] = (u, a, b)
                order.append(v)

    def path(n):
        ev = []
        while parent[n] is not None:
            u, a, b = parent[n]
            ev.append((a, b))
            n = u
        return ev[::-1]

    viol = []
    rho0 = case["rho0"]
    for u, v, a, b in edges:
        f = make_filter("Objective", rho0)
        for (x, y) in path(u):
            f.update(FakeIterate(-1, -1), FakeIterate(x, y))
        got_src = (frozenset((int(e[0]), int(e[1])) for e in f.entries), f.rho)
        exp_src = (nodes[u][0], rho0 * 10.0 ** 0)
        r = f.update(FakeIterate(-1, -1), FakeIterate(a, b))
        got = frozenset((int(e[0]), int(e[1])) for e in f.entries)
        rho_exp = rho0
        for _ in range(nodes[v][1]):
            rho_exp = rho_exp * 10.0
        want_acc = nodes[v][2] == "accepted"
        if got_src[0] != exp_src[0] or got != nodes[v][0] or bool(r.accept) != want_acc or f.rho != rho_exp or len(f.entries) != len(got):
            viol.append({"sig": "C18|tlc_edge", "msg": f"model edge {sorted(nodes[u][0])},k={nodes[u][1]} --Insert({a},{b})--> {sorted(nodes[v][0])},k={nodes[v][1]} "
                                                      f"({nodes[v][2]}) but the implementation gave entries {sorted(got)}, accept={r.accept}, rho={f.rho!r}",
                         "detail": {"path": path(u), "event": [a, b]}})
            if len(viol) > 5:
                break
    return {"outcome": "tlc-conform" if not viol else "violating", "key": [f"tlc|{sorted(v[0])}|{v[1]}" for v in nodes.values()], "violations": viol[:3],
            "stats": {"states": len(nodes), "transitions": len(edges), "tlc_edges_replayed": len(edges), "ordered_states": 0, "maxdepth": 0,
                      "sample_trace": path(order[-1])}}


def build(kind, rho0, api, hist):
    """Fresh real filter with `hist` replayed; returns (filter, ref, log)."""
    f = make_filter(kind, rho0)
    ref = RefFilter(rho0)
    for (a, b) in hist:
        step(kind, api, f, ref, a, b)
    return f, ref


def step(kind, api, f, ref, a, b):
    """Apply one event on the real filter; returns (impl_accept, impl_rho_returned)."""
    if api == "update":
        r = f.update(FakeIterate(-1, -1), FakeIterate(a, b))
        return bool(r.accept), r.next_rho
    ok = f.filter_insert(*pair_of(kind, a, b))
    return bool(ok), None


def chain_case(case):
    global NUM_CONS
    NUM_CONS = 2
    kind, api, N = case["kind"], case["api"], case["chain"]
    fine = bool(case.get("fine"))
    f = make_filter(kind, case["rho0"], single=fine)
    ref = RefFilter(case["rho0"])
    co = (lambda k: 1.0 + k * 2.0 ** -40) if fine else ((lambda k: 1.0 + k * 2.0 ** -52) if case.get("ulp") else (lambda k: k))
    idx = list(range(N))
    if case["order"] == "desc":
        idx.reverse()
    elif case["order"] == "inside_out":
        idx = sorted(idx, key=lambda i: (abs(i - N // 2), i))
    viol = []
    n_ev = 0

    def do(a, b, what):
        nonlocal n_ev
        n_ev += 1
        a, b = co(a), co(b)
        acc, rho_ret = step(kind, api, f, ref, a, b)
        want = ref.update(pair_of(kind, a, b))
        if api == "filter_insert" and not want:
            ref.rho = ref.rho / 10.0  # filter_insert itself does not touch the penalty
        if acc != want:
            viol.append({"sig": f"C18|{kind}|{api}|chain|{'accept' if want else 'refuse'}_expected",
                         "msg": f"{what}: point ({a},{b}) {'refused' if want else 'accepted'} with {len(f.entries)} stored entries; the reference "
                                f"{'accepts' if want else 'refuses'} it (chain of {N}, order {case['order']})", "detail": {"N": N, "point": [a, b]}})
            return False
        got = set(tuple(map(float, e)) for e in f.entries)
        if got != ref.entries:
            viol.append({"sig": f"C18|{kind}|{api}|chain|entries", "msg": f"{what}: after ({a},{b}) the filter holds {len(got)} entries, the reference "
                         f"{len(ref.entries)} (missing {sorted(ref.entries - got)[:3]}, extra {sorted(got - ref.entries)[:3]})", "detail": {"N": N, "point": [a, b]}})
            return False
        if api == "update" and rho_ret != ref.rho:
            viol.append({"sig": f"C18|{kind}|{api}|chain|rho", "msg": f"{what}: penalty {rho_ret!r}, reference {ref.rho!r}", "detail": {"N": N}})
            return False
        return True

    # entry i = (first coordinate 2i+1 increasing, second coordinate 2(N-i)+1 decreasing): mutually non-dominated
    ok = True
    for i in idx:
        if not do(2 * i + 1, 2 * (N - i) + 1, f"building the chain (entry {i})"):
            ok = False
            break
    if ok:
        for i in range(N):  # dominated by entry i only
            if not do(2 * i + 2, 2 * (N - i) + 2, f"probe dominated by entry {i} only"):
                break
    if ok and not viol:
        for i in range(0, N - 6, max(1, N // 40)):  # dominates entries i .. i+5
            if not do(2 * i + 1, 2 * (N - i - 5) + 1, f"point dominating entries {i}..{i + 5}"):
                break
    return {"outcome": "chain-ok" if not viol else "violating", "key": f"chain|{kind}|{api}|{N}|{case['order']}|{fine}|{case.get('ulp')}", "violations": viol[:2],
            "stats": {"transitions": n_ev, "states": n_ev, "chain_max": N}}


def run_case(case):
    if case.get("kind") == "tlc":
        return tlc_case(case)
    if case.get("chain"):
        return chain_case(case)
    global NUM_CONS
    NUM_CONS = case.get("num_cons", 2)
    kind, rho0, api, V, depth = case["kind"], case["rho0"], case["api"], case["V"], case["depth"]
    events = [(a, b) for a in V for b in V]
    viol = []
    # impl state: (tuple(ordered entries), k) where k counts refusals
    def impl_state(f, nref):
        return (tuple(tuple(map(float, e)) for e in f.entries), nref)

    f0 = make_filter(kind, rho0)
    start = ((), 0, tuple(sorted((k, repr(v)) for k, v in vars(f0).items() if k not in ("problem", "params", "entries", "rho"))))
    seen = {start: ()}  # ordered impl state -> history reaching it
    canon = {((), 0)}
    frontier = collections.deque([start])
    transitions = 0
    maxdepth = 0
    trace_sample = None
    while frontier:
        st = frontier.popleft()
        hist = seen[st]
        if len(hist) >= depth:
            continue
        for ev in events:
            f, ref = build(kind, rho0, api, hist)
            # ref must be rebuilt in lock step
            ref = RefFilter(rho0)
            for (a, b) in hist:
                ref.update(pair_of(kind, a, b))
            nref_before = st[1]
            before = set(map(tuple, f.entries))
            rho_before = f.rho
            acc, rho_ret = step(kind, api, f, ref, *ev)
            p = pair_of(kind, *ev)
            exp_acc = ref.update(p)
            transitions += 1
            after = [tuple(map(float, e)) for e in f.entries]
            problems = []
            if acc != exp_acc:
                problems.append(f"accept={acc} expected={exp_acc}")
            if set(after) != ref.entries or len(after) != len(set(after)):
                problems.append(f"entries={after} expected={sorted(ref.entries)}")
            if not is_antichain(after):
                problems.append(f"entries not pairwise non-dominated: {after}")
            if api == "update":
                if f.rho != ref.rho:
                    problems.append(f"rho={f.rho!r} expected={ref.rho!r}")
                if rho_ret != f.rho:
                    problems.append(f"returned rho {rho_ret!r} != filter rho {f.rho!r}")
                if exp_acc and f.rho != rho_before:
                    problems.append("rho changed on acceptance")
            else:
                if f.rho != rho_before:
                    problems.append("filter_insert changed rho")
            if exp_acc:
                dominated = {e for e in before if p[0] <= e[0] and p[1] <= e[1]}
                if set(after) != (before - dominated) | {p}:
                    problems.append("accepted insertion did not remove exactly the dominated entries")
            else:
                if set(after) != before:
                    problems.append("refused insertion changed the entries")
            if problems:
                viol.append({
                    "sig": f"C18|{kind}|{api}|" + problems[0].split("=")[0].split(" ")[0],
                    "msg": f"history={list(hist)} event={ev}: " + "; ".join(problems),
                    "detail": {"history": list(hist), "event": ev},
                })
                if len(viol) > 20:
                    break
            nref = nref_before + (0 if exp_acc or api != "update" else 1)
            # implementation state = EVERY attribute of the filter object (so that hidden state added by a change, e.g. a cache,
            # cannot be merged away), not only the fields the reference model knows about
            hidden = tuple(sorted((k, repr(v)) for k, v in vars(f).items() if k not in ("problem", "params", "entries", "rho")))
            ns = (tuple(after), nref, hidden)
            canon.add((tuple(sorted(after)), nref))
            if ns not in seen:
                seen[ns] = hist + (ev,)
                frontier.append(ns)
                maxdepth = max(maxdepth, len(hist) + 1)
                trace_sample = list(hist + (ev,))
        if len(viol) > 20:
            break
    return {
        "outcome": "explored" if not viol else "violating",
        "key": [f"{kind}|{api}|{rho0}|{NUM_CONS}|{c}" for c in canon],
        "violations": viol[:5],
        "stats": {"states": len(canon), "ordered_states": len(seen), "transitions": transitions,
                  "maxdepth": maxdepth, "sample_trace": trace_sample},
    }


def summarize(cases_, results, tier):
    st = sum(r["stats"].get("states", 0) for r in results)
    tr = sum(r["stats"].get("transitions", 0) for r in results)
    return {
        "evaluations": tr,
        "states": st,
        "ordered_impl_states": sum(r["stats"].get("ordered_states", 0) for r in results),
        "transitions": tr,
        "traces_validated_against_impl": tr,
        "tlc_edges_replayed": sum(r["stats"].get("tlc_edges_replayed", 0) for r in results),
        "longest_antichain": max([r["stats"].get("chain_max", 0) for r in results] + [0]),
        "depth_bound": TABLE[tier]["depth"],
        "value_grid": TABLE[tier]["V"],
    }


def samples(cases_, results):
    return [{"case": c, "trace": r["stats"].get("sample_trace")} for c, r in zip(cases_, results)][:3]


def vacuity(cases_, results, tier):
    out = []
    for c, r in zip(cases_, results):
        if r["stats"].get("states", 0) < 20 and not r.get("harness_error"):
            out.append(f"too few states for {c}")
    return out
