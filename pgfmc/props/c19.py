"""C19 The derivative checker accepts correct derivatives and pinpoints wrong ones."""
import itertools

import numpy as np

from pgfmc.model import specs as S
from pgfmc.model import oracle as O

ID = "C19"
LEVEL = "exploration"
RULE = ("grid: well-scaled smooth spec x start x scaling {none, 2 custom} x derivative {gradient, Jacobian, Hessian} x EVERY (row, column) x "
        "error magnitude {3, 30, 1e4, -5e5, entry omitted from the sparsity pattern} x (deriv_tol + rtol*|value| + finite-difference error bound) expressed in internal units; plus the "
        "uncorrupted problem (must pass, and the solve after the check must equal the solve without check); oracle: DerivError with "
        "invalid_indices == [row] and col_index == column; distinct = (spec, start, scaling, derivative, row, column, magnitude)")
ASSUMPTIONS = ["'well-scaled' is decided by the oracle: the reference's own forward-difference error at the start must be below 0.3*deriv_tol for every entry, otherwise the case is counted as out-of-class",
               "one wrong entry at a time"]

MAGS = [3.0, 30.0, 1e4, -5e5]


def table(tier):
    t = [(["boxed", "free"], "cubic", [("bilinear", "eq0"), ("affine", "upper")]),
         (["lower", "upper"], "rosen", [("sphere", "ranged")]),
         (["free", "free"], "exp", [("sphere", "eqoff"), ("cubic", "lower")]),
         (["boxed", "free"], "cubic", [])]
    if tier == "thorough":
        t += [(["boxed", "boxed", "free"], "cubic", [("sphere", "eq0"), ("bilinear", "ranged")]),
              (["free"], "quartic", [("sphere", "upper")]),
              (["fixed", "free"], "qfull", [("bilinear", "lower")]),
              (["free", "lower"], "exp", [])]
    return t


def cases(tier, seed):
    out = []
    for ti, (vk, obj, rows) in enumerate(table(tier)):
        n, m = len(vk), len(rows)
        for x0i in ((2, 0) if tier == "quick" else (0, 2, 3)):
            for si in (0, 1, 2):
                base = {"ti": ti, "x0i": x0i, "si": si, "tier": tier}
                out.append(dict(base, which="none"))
                if si == 0:
                    # user-chosen checker parameters: every entry again, one magnitude
                    for pv in (1, 2):
                        b2 = dict(base, pv=pv)
                        out.append(dict(b2, which="none"))
                        for j in range(n):
                            out.append(dict(b2, which="grad", i=0, j=j, mag=5.0))
                        for i in range(m):
                            for j in range(n):
                                out.append(dict(b2, which="jac", i=i, j=j, mag=5.0))
                        for i in range(n):
                            for j in range(n):
                                out.append(dict(b2, which="hess", i=i, j=j, mag=5.0))
                for j in range(n):
                    for mg in MAGS:
                        out.append(dict(base, which="grad", i=0, j=j, mag=mg))
                for i in range(m):
                    for j in range(n):
                        for mg in MAGS:
                            out.append(dict(base, which="jac", i=i, j=j, mag=mg))
                for i in range(n):
                    for j in range(n):
                        for mg in MAGS:
                            out.append(dict(base, which="hess", i=i, j=j, mag=mg))
                # entries omitted from the sparsity pattern of the returned matrix (wrong by their whole value)
                for i in range(m):
                    for j in range(n):
                        out.append(dict(base, which="jac", i=i, j=j, mag="drop"))
                for i in range(n):
                    for j in range(n):
                        out.append(dict(base, which="hess", i=i, j=j, mag="drop"))
    # matrices in compressed storage with repeated stored entries (unscaled, so that they reach the checker as returned)
    for ti, (vk, obj, rows) in enumerate(table(tier)):
        n, m = len(vk), len(rows)
        for fmt in ("csr_dup", "csc_dup", "coo_dup"):
            base = {"ti": ti, "x0i": 2, "si": 0, "tier": tier, "fmt": fmt}
            out.append(dict(base, which="none"))
            for j in range(n):
                for i in range(m):
                    out.append(dict(base, which="jac", i=i, j=j, mag=30.0))
                for i in range(n):
                    out.append(dict(base, which="hess", i=i, j=j, mag=30.0))
    # start points with small but non-zero components (1e-6, -1e-9, 1e-12)
    for ti, (vk, obj, rows) in enumerate(table(tier)):
        n, m = len(vk), len(rows)
        base = {"ti": ti, "x0i": 2, "si": 0, "tier": tier, "x0_small": True}
        out.append(dict(base, which="none"))
        for j in range(n):
            out.append(dict(base, which="grad", i=0, j=j, mag=30.0))
            for i in range(m):
                out.append(dict(base, which="jac", i=i, j=j, mag=30.0))
            for i in range(n):
                out.append(dict(base, which="hess", i=i, j=j, mag=30.0))
    # one Solver object solved several times: the check belongs to every solve (derivatives wrong only near the LATER start)
    for ti, (vk, obj, rows) in enumerate(table(tier)):
        n, m = len(vk), len(rows)
        for si in (0, 1):
            for (which, i, j) in [("grad", 0, jj) for jj in range(n)] + ([("jac", 0, 0)] if m else []) + [("hess", 0, 0)]:
                out.append({"ti": ti, "x0i": 2, "x0i_first": 0, "si": si, "tier": tier, "which": which, "i": i, "j": j, "mag": 30.0, "second": True})
    # many columns (20+ internal variables incl. slacks): every gradient column, every Jacobian entry of the band, Hessian band
    for nn in ((30,) if tier == "quick" else (20, 30, 50)):
        spec = S.banded_qp(nn, "mixed", 0)
        m = len(spec["rows"])
        base = {"large": nn, "x0i": 0, "si": 0, "tier": tier, "ti": -1}
        out.append(dict(base, which="none"))
        for j in range(nn):
            out.append(dict(base, which="grad", i=0, j=j, mag=30.0))
            for i in (j - 1, j, j + 1):
                if 0 <= i < nn:
                    out.append(dict(base, which="hess", i=i, j=j, mag=30.0))
            for i in range(m):
                out.append(dict(base, which="jac", i=i, j=j, mag=30.0))
    return out


def make_corrupt(inner, which, i, j, delta, region=None):
    import scipy.sparse as sps
    from pygradflow.problem import Problem

    class Corrupt(Problem):
        def __init__(self):
            if inner.num_cons > 0:
                super().__init__(inner.var_lb, inner.var_ub, cons_lb=inner.cons_lb, cons_ub=inner.cons_ub)
            else:
                super().__init__(inner.var_lb, inner.var_ub)

        def obj(self, x):
            return inner.obj(x)

        def obj_grad(self, x):
            g = np.array(inner.obj_grad(x), dtype=float, copy=True)
            if which == "grad" and self._on(x):
                g[j] += delta
            return g

        def _on(self, x):
            return region is None or float(np.linalg.norm(np.asarray(x) - np.asarray(region[0]))) < region[1]

        def cons(self, x):
            return inner.cons(x)

        def _add(self, M):
            M = M.tocoo()
            if delta == "drop":
                keep = ~((M.row == i) & (M.col == j))
                return sps.coo_matrix((M.data[keep], (M.row[keep], M.col[keep])), shape=M.shape)
            return sps.coo_matrix((np.concatenate([M.data, [delta]]), (np.concatenate([M.row, [i]]), np.concatenate([M.col, [j]]))),
                                  shape=M.shape)

        def cons_jac(self, x):
            M = inner.cons_jac(x)
            return self._add(M) if which == "jac" and self._on(x) else M

        def lag_hess(self, x, y):
            M = inner.lag_hess(x, y)
            return self._add(M) if which == "hess" and self._on(x) else M

    return Corrupt()


def run_case(case):
    from pygradflow.deriv_check import DerivError
    from pgfmc.drive.problems import UserProblem
    from pgfmc.drive.run import make_params, run_solve, RecSolver

    if case.get("large"):
        spec = S.banded_qp(case["large"], "mixed", 0)
        n, m = spec["n"], len(spec["rows"])
        spec = dict(spec, x0=[0.125 * ((k % 5) - 2) for k in range(n)])
        sc = None
        y0 = [0.75 if k % 2 == 0 else -1.25 for k in range(m)]
    else:
        vk, obj, rows = table(case["tier"])[case["ti"]]
        n, m = len(vk), len(rows)
        spec = S.mk(n, obj, rows, vk, x0_idx=case["x0i"], tight=False, fmt=case.get("fmt", "coo"))
        sc = S.scalings(n, m, [0.625, -1.25, 0.75][:n])[case["si"]]
        y0 = [0.75, -1.25][:m]
        if case.get("x0_small"):
            spec = dict(spec, x0=S.project([1e-6, -1e-9, 1e-12][:n], spec["var_lb"], spec["var_ub"]), tag=spec["tag"] + "|small_start")
    prob = UserProblem(spec)
    F = O.Funcs(spec)
    vw = np.array(sc["vw"], dtype=int) if sc else np.zeros(n, dtype=int)
    cw = np.array(sc["cw"], dtype=int) if sc else np.zeros(m, dtype=int)
    ow = sc["ow"] if sc else 0
    T = O.RefTrans(F, vw, cw, ow)
    cfg = {"iteration_limit": 0, "deriv_check": "CheckAll"}
    PV = {1: {"deriv_tol": 1e-6}, 2: {"deriv_pert": 1e-6, "deriv_tol": 3e-4}}
    if case.get("pv"):
        cfg["params"] = PV[case["pv"]]
    params = make_params(cfg, sc)
    eps, atol, rtol = params.deriv_pert, params.deriv_tol, 1e-5
    xi, yi = T.transform_sol(np.array(spec["x0"]), np.array(y0))

    # the reference's own forward-difference error per entry (internal units)
    def fd_err(fun, jac):
        f0 = np.atleast_1d(fun(xi))
        Jm = np.atleast_2d(jac)
        err = np.zeros_like(Jm)
        for c in range(T.n):
            xt = xi.copy(); xt[c] += eps
            err[:, c] = np.abs((np.atleast_1d(fun(xt)) - f0) / eps - Jm[:, c])
        return err

    with np.errstate(all="ignore"):
        Eg = fd_err(T.obj, T.grad(xi))
        Ej = fd_err(T.cons, T.jac(xi)) if m else np.zeros((0, T.n))
        Eh = fd_err(lambda x: T.grad(x) + T.jac(x).T.dot(yi), T.hess(xi, yi))
    worst = max(float(np.max(Eg, initial=0)), float(np.max(Ej, initial=0)), float(np.max(Eh, initial=0)))
    if not np.isfinite(worst) or worst > 0.3 * atol:
        return {"outcome": "out-of-class", "key": None, "violations": [], "stats": {"fd": worst}}
    fdm = 3.0 * worst + 1e-7

    viol = []
    at = {k: case[k] for k in case if k != "tier"}
    at["spec"] = spec["tag"]

    def bad(what, msg):
        viol.append({"sig": f"C19|{what}", "msg": f"{what}: {msg} at {at}", "detail": at})

    which = case["which"]
    if which == "none":
        rec = run_solve(prob, params, spec["x0"], y0)
        if rec.exc is not None:
            bad("false_positive|" + rec.exc["cls"], f"correct derivatives rejected: {rec.exc['msg']}")
        else:
            # the check must not alter the solve
            cfg2 = {"iteration_limit": 40, "deriv_check": "CheckAll", "params": dict(cfg.get("params") or {})}
            cfg3 = {"iteration_limit": 40, "params": dict(cfg.get("params") or {})}
            a = run_solve(UserProblem(spec), make_params(cfg2, sc), spec["x0"], y0)
            b = run_solve(UserProblem(spec), make_params(cfg3, sc), spec["x0"], y0)
            if a.digest != b.digest:
                bad("check_alters_solve", f"digest with check {a.digest} != without {b.digest}")
            # time spent in the (expensive) check is not charged to the solve's deadline: virtual clock on which every
            # callback evaluation takes one second; deadline = duration of the solve alone + half the duration of the check
            from pgfmc.drive.problems import TickingProblem
            from pgfmc.drive.run import VirtualClock
            ck0 = VirtualClock()
            tp0 = TickingProblem(UserProblem(spec), ck0)
            r0 = run_solve(tp0, make_params(cfg3, sc), spec["x0"], y0, clock=ck0)
            ck1 = VirtualClock()
            tp1 = TickingProblem(UserProblem(spec), ck1)
            run_solve(tp1, make_params(cfg2, sc), spec["x0"], y0, clock=ck1)
            check_cost = tp1.evals - tp0.evals   # evaluations spent in the derivative check
            if r0.result is not None and r0.result.status.name in ("Optimal", "IterationLimit") and tp0.evals >= 8 and check_cost >= 4:
                # the solve alone fits exactly; half of the check's duration is the only slack
                limit = tp0.evals + 0.5 * check_cost
                outs = []
                for c in (cfg3, cfg2):
                    ck = VirtualClock()
                    tp = TickingProblem(UserProblem(spec), ck)
                    cc = dict(c); cc["params"] = {"time_limit": limit}
                    outs.append(run_solve(tp, make_params(cc, sc), spec["x0"], y0, clock=ck))
                if outs[0].digest != outs[1].digest:
                    bad("check_charged_to_deadline", f"with a deadline of the solve's own duration plus half the check's the run with derivative check ended "
                        f"{outs[1].result.status.name if outs[1].result else outs[1].exc} but the run without check {outs[0].result.status.name if outs[0].result else outs[0].exc}")
        return {"outcome": "correct-accepted" if not viol else "violating", "key": f"{spec['tag']}|{case['si']}|none",
                "violations": viol, "stats": {"fd": worst}}

    i, j, mag = case["i"], case["j"], case["mag"]
    if which == "grad":
        true = T.grad(xi)[j]; expo = ow - vw[j]
    elif which == "jac":
        true = T.jac(xi)[i, j]; expo = cw[i] - vw[j]
    else:
        true = T.hess(xi, yi)[i, j]; expo = ow - vw[i] - vw[j]
    if mag == "drop":
        d_int = abs(true)
        if d_int <= 3.0 * (atol + rtol * abs(true) + fdm):
            return {"outcome": "dropped-entry-below-tolerance", "key": None, "violations": [], "stats": {"fd": worst}}
        delta_user = "drop"
    else:
        d_int = mag * (atol + rtol * abs(true) + fdm)
        d_int = d_int * (1.0 + rtol * abs(mag))  # rtol applies to the approximated value too
        delta_user = float(np.ldexp(d_int, -int(expo)))
    if case.get("second"):
        first = S.mk(n, obj, rows, vk, x0_idx=case["x0i_first"], tight=False)["x0"]
        dist = float(np.linalg.norm(np.array(first) - np.array(spec["x0"])))
        if dist < 0.1:
            return {"outcome": "starts-coincide", "key": None, "violations": [], "stats": {"fd": worst}}
        cp = make_corrupt(prob, which, i, j, delta_user, region=(spec["x0"], 0.25 * dist))
        solver = RecSolver(cp, params)
        rec1 = run_solve(cp, params, first, y0, solver=solver)
        recs = [run_solve(cp, params, spec["x0"], y0, solver=solver) for _ in range(2)]
        if rec1.exc is not None:
            if rec1.exc["cls"] != "DerivError":
                bad("second|first_solve|" + rec1.exc["cls"], rec1.exc["msg"])
            return {"outcome": "first-start-out-of-class" if not viol else "violating", "key": None, "violations": viol, "stats": {"fd": worst}}
        for k, rec in enumerate(recs):
            if rec.exc is None:
                bad(f"missed_on_later_solve|{which}", f"solve {k + 2} on one Solver object: error {d_int:.3e} at ({i},{j}) at its start not detected "
                    f"(the first solve, from a start where the derivatives are right, passed the check); status {rec.result.status.name}")
            elif rec.exc["cls"] != "DerivError":
                bad(f"wrong_exception|{which}|{rec.exc['cls']}", rec.exc["msg"])
            elif [int(r) for r in rec.exc_obj.invalid_indices] != [i] or int(rec.exc_obj.col_index) != j:
                bad(f"misidentified|{which}", f"later solve reported rows {list(rec.exc_obj.invalid_indices)} col {rec.exc_obj.col_index}, expected row [{i}] col {j}")
        return {"outcome": "wrong-detected-on-later-solve" if not viol else "violating",
                "key": f"{spec['tag']}|second|{case['si']}|{which}|{i}|{j}", "violations": viol, "stats": {"fd": worst}}
    cp = make_corrupt(prob, which, i, j, delta_user)
    rec = run_solve(cp, params, spec["x0"], y0)
    if rec.exc is None:
        bad(f"missed|{which}", f"error {d_int:.3e} (internal units) at ({i},{j}) not detected; status {rec.result.status.name}")
    elif rec.exc["cls"] != "DerivError":
        bad(f"wrong_exception|{which}|{rec.exc['cls']}", rec.exc["msg"])
    else:
        e = rec.exc_obj
        rows_ = [int(r) for r in e.invalid_indices]
        if rows_ != [i] or int(e.col_index) != j:
            bad(f"misidentified|{which}", f"reported rows {rows_} col {e.col_index}, expected row [{i}] col {j}")
    return {"outcome": "wrong-detected" if not viol else "violating",
            "key": f"{spec['tag']}|{case['x0i']}|{case['si']}|{which}|{i}|{j}|{mag}|{case.get('pv')}", "violations": viol, "stats": {"fd": worst}}


def vacuity(cases_, results, tier):
    oc = sum(1 for r in results if r["outcome"] == "out-of-class")
    if oc > 0.5 * len(results):
        return [f"{oc} of {len(results)} cases out of class"]
    return []
