"""C05 User functions are only evaluated inside the variable bounds."""
import itertools

import numpy as np

from pgfmc.drive import grid as G
from pgfmc.drive import monitors as M
from pgfmc.model import specs as S

ID = "C05"
LEVEL = "exploration"
RULE = ("every case is a complete solve() with a recording wrapper around the user's problem: specs with active bounds (incl. log-barrier "
        "objectives whose pole lies just outside the box) x in-bounds starts x Newton type 4 x active-set rule 4 x controller 4 x step solver "
        "x scaling {none, custom, GradJac}; EVERY callback evaluation (argument + issuing pygradflow call site), every ComputedStep iterate and "
        "result.x is checked against the bounds exactly; distinct = (spec, config, scaling) runs with at least one evaluation on a bound")
ASSUMPTIONS = ["exempt call sites: deriv_check.py and scale.create_scaling (as the property states)",
               "power-of-two bound scaling is exact, so in-box in scaled space is equivalent to in-box in user space",
               "horizon 80 (quick) / 200 (thorough) iterations"]
CASE_ALARM_S = 120


def spec_table(tier):
    out = []
    vks = [["boxed", "lower"], ["upper", "boxed"], ["boxed", "boxed"], ["fixed", "boxed"], ["odd", "odd"]]
    rowsets = [[], [("affine", "ranged")], [("sphere", "upper")], [("bilinear", "eq0")], [("affine", "eqoff"), ("sphere", "ranged")]]
    objs = ["qdiag", "logbar", "rosen"] if tier == "quick" else ["qdiag", "logbar", "rosen", "cubic", "exp"]
    for vk in vks:
        for rows in rowsets:
            for obj in objs:
                for x0i in ((1, 2) if tier == "quick" else (0, 1, 2, 3)):
                    out.append(S.mk(2, obj, rows, vk, x0_idx=x0i))
    return out


def cfg_table(tier, seed):
    out = []
    for newton in G.R.NEWTONS:
        for aset in G.R.ACTIVE_SETS:
            for control in (G.R.CONTROLS if tier == "thorough" else ["DistanceRatio", "Exact"]):
                for ss in (["Symmetric", "Standard"] if tier == "thorough" else ["Symmetric"]):
                    out.append({"newton": newton, "active_set": aset, "control": control, "step_solver": ss})
    return out


def cases(tier, seed):
    out = []
    H = 80 if tier == "quick" else 200
    specs = spec_table(tier)
    cfgs = cfg_table(tier, seed)
    for si, spec in enumerate(specs):
        for ci, cfg in enumerate(cfgs):
            if tier == "thorough" and cfg.get("step_solver") == "Standard" and si % 2 == 1:
                continue  # the Standard step solver on every second spec (bounds the tier to ~12 minutes)
            if tier == "quick" and (si + ci) % 4 != seed % 4 and cfg["newton"] != "Globalized" and si % 3 != 0:
                continue  # quick: every spec with every Globalized config, a third of the specs with everything, plus one seed slice
            for sc in (G.scalings_of(spec, (0, 1 if (si + ci) % 2 else 4)) if tier == "thorough" else G.scalings_of(spec, (0, 1))):
                c = dict(cfg); c["iteration_limit"] = H
                out.append({"spec": spec, "cfg": c, "sc": sc})
    # DEBUG logging (extra diagnostics must not evaluate outside the box either): starts exactly on upper / lower bounds
    for obj in ("qdiag", "cubic"):
        for rows in ([], [("affine", "ranged")]):
            for vk in (["boxed", "upper"], ["lower", "boxed"]):
                sp0 = S.mk(2, obj, rows, vk, x0_idx=1)
                for corner in ("ub", "lb"):
                    sp = dict(sp0)
                    sp["x0"] = [(u if corner == "ub" else l) if (u if corner == "ub" else l) not in ("inf", "-inf") else x for l, u, x in zip(sp0["var_lb"], sp0["var_ub"], sp0["x0"])]
                    sp["tag"] += f"|start_on_{corner}|debug"
                    for sc in G.scalings_of(sp, (0, 1, 4)):
                        for dc in (None, "CheckFirst"):
                            cfg = {"iteration_limit": H}
                            if dc:
                                cfg["deriv_check"] = dc
                            out.append({"spec": sp, "cfg": cfg, "sc": sc, "dbg": True})
    # integer-typed bound arrays under every scaling
    for obj in ("qdiag", "cubic"):
        for rows in ([], [("affine", "ranged")], [("sphere", "upper")], [("affine", "introw")], [("sphere", "introw"), ("affine", "inteq")]):
            for x0i in (1, 2):
                sp = S.mk(2, obj, rows, ["intbox", "intbox"], x0_idx=x0i)
                for sc in G.scalings_of(sp, (0, 1, 2, 3, 4, 5)):
                    for ctl in ("DistanceRatio", "Exact"):
                        out.append({"spec": sp, "cfg": {"iteration_limit": H, "control": ctl}, "sc": sc})
    # solve() without a start: the default start is the origin projected onto the box (boxes below exclude 0 for some variables)
    for vk in (["boxed", "lower"], ["upper", "boxed"]):
        for shift in (1.0, -2.0, 4.0, -4.0):
            sp = S.mk(2, "qdiag", [("affine", "ranged")], vk)
            sp = dict(sp)
            sp["var_lb"] = [v + shift if v not in ("inf", "-inf") else v for v in sp["var_lb"]]
            sp["var_ub"] = [v + shift if v not in ("inf", "-inf") else v for v in sp["var_ub"]]
            sp["tag"] += f"|shift{shift}|no_x0"
            for sc in G.scalings_of(sp, (0, 1, 2, 4)):
                out.append({"spec": sp, "cfg": {"iteration_limit": H}, "sc": sc, "no_x0": True})
    return out


def run_case(case):
    from pgfmc.drive.run import outcome_of

    if case.get("no_x0"):
        case = dict(case); case["spec"] = dict(case["spec"]); case["spec"]["x0"] = None
    import logging
    ctx = G.execute(case, record=True, log_level=logging.DEBUG if case.get("dbg") else None)
    if ctx.setup_error is not None:
        return {"outcome": "setup:" + type(ctx.setup_error).__name__, "key": None, "violations": [], "stats": {}}
    viol = M.mon_c05(ctx.rec, ctx.recprob, ctx.F, ctx.params)
    calls = ctx.recprob.calls
    on_bound = sum(1 for (_, x, _) in calls if ((x == ctx.F.var_lb) | (x == ctx.F.var_ub)).any())
    key = f"{case['spec']['tag']}|{G.cfg_key(case['cfg'])}|{ctx.weights}" if on_bound else None
    return {"outcome": outcome_of(ctx.rec), "key": key, "violations": viol,
            "stats": {"calls": len(calls), "on_bound": on_bound, "cb": len(ctx.rec.cb)}}


def summarize(cases_, results, tier):
    return {"callback_evaluations_checked": sum(r["stats"].get("calls", 0) for r in results),
            "evaluations_on_a_bound": sum(r["stats"].get("on_bound", 0) for r in results),
            "computed_step_callbacks": sum(r["stats"].get("cb", 0) for r in results)}


def vacuity(cases_, results, tier):
    s = summarize(cases_, results, tier)
    return [] if s["evaluations_on_a_bound"] > 1000 else ["fewer than 1000 evaluations on a bound"]
