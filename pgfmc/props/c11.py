"""C11 Caller-owned data is never modified; cached callback results are safe."""
import numpy as np

from pgfmc.drive import grid as G
from pgfmc.drive import run as R
from pgfmc.model import specs as S

ID = "C11"
LEVEL = "exploration"
RULE = ("grid: specs with non-zero equality offsets, slack rows, constant and non-constant Jacobians/Hessians x sparse format {COO, COO with "
        "duplicates, CSR, CSC} x return policy {fresh, cached constant, memoised per point} x scaling {none, custom, GradJac} x configuration "
        "{default, Standard+Full Newton}; every case is a complete solve with value snapshots of x0, y0, the bound arrays, the scaling weights "
        "and of EVERY object returned by a callback (snapshot at return, compared after the solve), plus twin-run equality: the cached/memoised "
        "variant must be bit-identical to the fresh variant. distinct = (spec, format, policy, scaling, config)")
ASSUMPTIONS = ["horizon 40 iterations", "a returned object counts as modified if its dense value or its raw data array changed"]
CASE_ALARM_S = 120


def table(tier):
    rowsets = [[("affine", "eqoff")], [("affine", "ranged")], [("affine", "eqoff"), ("sphere", "lower")], [("bilinear", "eq0"), ("affine", "upper")]]
    objs = ["qfull", "cubic"]
    vks = [["boxed", "free"]] if tier == "quick" else [["boxed", "free"], ["lower", "upper"], ["fixed", "boxed"]]
    out = []
    for rows in rowsets:
        for obj in objs:
            for vk in vks:
                for fmt in ("coo", "coo_dup", "csr", "csc"):
                    out.append((rows, obj, vk, fmt))
    return out


def cases(tier, seed):
    out = []
    cfgs = [{}, {"step_solver": "Standard", "newton": "Full"}, {"step_solver": "Asymmetric"}, {"newton": "Globalized"},
            {"step_solver": "Extended", "newton": "ActiveSet"}, {"params": {"precision": "Single"}}]
    if tier == "thorough":
        cfgs += [{"step_solver": "Asymmetric", "control": "Exact"}, {"step_solver": "Extended", "newton": "ActiveSet", "penalty": "LagrangianFilter"}]
    for (rows, obj, vk, fmt) in table(tier):
        for si in (0, 1, 4) if tier == "quick" else (0, 1, 2, 3, 4, 5):
            for cfg in cfgs:
                out.append({"rows": [list(r) for r in rows], "obj": obj, "vk": vk, "fmt": fmt, "si": si, "cfg": cfg})
    # the flow-integration solver is a solve as well (equality rows only / no rows: no slack copy is made on the way)
    for rows in ([("affine", "eq0")], [("affine", "eqoff")], [], [("affine", "ranged")]):
        for obj in ("qin", "qdiag"):
            for vk in (["free", "free"], ["boxed", "free"]):
                for fmt in ("coo", "csr"):
                    for si in (0, 1):
                        out.append({"rows": [list(r) for r in rows], "obj": obj, "vk": vk, "fmt": fmt, "si": si, "cfg": {"integration": True}})
    for (rows, obj, vk, fmt) in table(tier)[::4]:
        out.append({"rows": [list(r) for r in rows], "obj": obj, "vk": vk, "fmt": fmt, "si": 0, "cfg": {}, "zero_nominal": True})
        out.append({"rows": [list(r) for r in rows], "obj": obj, "vk": vk, "fmt": fmt, "si": 0, "cfg": {}, "huge": True})
        out.append({"rows": [list(r) for r in rows], "obj": obj, "vk": vk, "fmt": fmt, "si": 1, "cfg": {}, "huge": True})
    return out


def owned_snapshot(spec_arrays, params, prob):
    items = {"x0": spec_arrays["x0"], "y0": spec_arrays["y0"], "var_lb": prob.var_lb, "var_ub": prob.var_ub,
             "cons_lb": prob.cons_lb, "cons_ub": prob.cons_ub}
    if params.scaling is not None:
        items["scaling.var_weights"] = params.scaling.var_weights
        items["scaling.cons_weights"] = params.scaling.cons_weights
    if params.scaling_primal is not None:
        items["scaling_primal"] = params.scaling_primal
    if params.scaling_dual is not None:
        items["scaling_dual"] = params.scaling_dual
    return {k: (v, np.array(v, copy=True)) for k, v in items.items()}


def one(case, policy):
    from pgfmc.drive.problems import RecordingProblem, UserProblem

    n = len(case["vk"])
    spec = S.mk(n, case["obj"], [tuple(r) for r in case["rows"]], case["vk"], fmt=case["fmt"], policy=policy)
    sc = G.scalings_of(spec, (case["si"],))[0]
    if case.get("zero_nominal"):
        # Nominal scaling at a point with an exactly zero component (and zero constraint value on an equality row)
        sc = {"type": "Nominal", "at": [0.0] + list(spec["x0"][1:]), "dual": [0.0] * len(case["rows"])}
    if case.get("huge"):
        spec["rows"][0]["lb"], spec["rows"][0]["ub"] = -1e20, 1e30
    cfg = dict(case["cfg"]); cfg["iteration_limit"] = 40
    integration = cfg.pop("integration", False)
    params = R.make_params(cfg, sc)
    user = UserProblem(spec)
    prob = RecordingProblem(user, record_sites=False, snapshot=True)
    x0 = np.array(spec["x0"], dtype=float)
    y0 = np.array([0.5, -0.25][: len(case["rows"])], dtype=float)
    owned = owned_snapshot({"x0": x0, "y0": y0}, params, user)
    if integration:
        import hashlib
        from pygradflow.integration.integration_solver import IntegrationSolver

        class _Rec:
            pass

        rec = _Rec()
        try:
            with np.errstate(all="ignore"):
                res = IntegrationSolver(prob, params).solve(x0, y0)
            rec.digest = hashlib.sha256(res.status.name.encode() + np.asarray(res.x).tobytes() + np.asarray(res.y).tobytes()
                                        + np.asarray(res.d).tobytes()).hexdigest()[:20]
        except Exception as e:
            if type(e).__name__ == "CaseTimeout":
                raise
            rec.digest = "exc:" + type(e).__name__
        return spec, prob, rec, owned, params
    solver = R.RecSolver(prob, params)
    rec = R.run_solve(prob, params, x0, y0, solver=solver)
    # note: run_solve copies x0/y0 into fresh arrays; pass the originals instead
    return spec, prob, rec, owned, params


def run_case(case):
    from pgfmc.drive.problems import snap

    viol = []
    digests = {}
    stats = {"returned_objects": 0}
    for policy in ("fresh", "const", "memo"):
        spec, prob, rec, owned, params = one(case, policy)
        digests[policy] = rec.digest
        for name, (obj, before) in owned.items():
            if not np.array_equal(np.asarray(obj), before, equal_nan=True):
                viol.append({"sig": f"C11|owned_modified|{name}", "msg": f"{name} changed from {before.tolist()} to {np.asarray(obj).tolist()} (policy {policy})"})
        seen_ids = set()
        for kind, obj, s0 in prob.returned:
            stats["returned_objects"] += 1
            if kind == "obj":
                continue
            try:
                changed = snap(obj) != s0
            except Exception:
                changed = True   # the object was left in a state that cannot even be read any more
            if changed:
                sig = f"C11|returned_modified|{kind}|{case['fmt'] if kind in ('jac', 'hess') else 'array'}"
                if sig not in seen_ids:
                    seen_ids.add(sig)
                    viol.append({"sig": sig, "msg": f"object returned by {kind} (policy {policy}, format {case['fmt']}, scaling {case['si']}) was modified in place after it was returned"})
    for policy in ("const", "memo"):
        if digests[policy] != digests["fresh"]:
            viol.append({"sig": f"C11|twin_differs|{policy}", "msg": f"run with policy {policy} (format {case['fmt']}, scaling {case['si']}, rows {case['rows']}) is not bit-identical to the fresh-copy run"})
    seen, vs = set(), []
    for v in viol:
        if v["sig"] not in seen:
            seen.add(v["sig"]); vs.append(v)
    return {"outcome": "untouched" if not viol else "violating",
            "key": f"{case['rows']}|{case['obj']}|{case['vk']}|{case['fmt']}|{case['si']}|{case['cfg']}|{case.get('zero_nominal')}|{case.get('huge')}", "violations": vs, "stats": stats}


def summarize(cases_, results, tier):
    return {"evaluations": 3 * len(cases_), "returned_objects_checked": sum(r["stats"].get("returned_objects", 0) for r in results)}
