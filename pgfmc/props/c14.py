"""C14 All step-solver and linear-solver choices compute the same Newton step."""
import itertools

import numpy as np

from pgfmc.model import specs as S
from pgfmc.model import oracle as O

ID = "C14"
LEVEL = "exploration"
RULE = ("grid: spec (affine and nonlinear rows, violated at the evaluation points) x base point x evaluation point x multiplier x dt x rho "
        "x ALL 2^n active sets (set through update_active_set) x step solver 4 x linear solver {LU, GMRES, MINRES with Symmetric}; oracle = "
        "numpy.linalg.solve on the dense reference Jacobian of the implicit-Euler residual, compared after the same box clipping; plus "
        "first-step equality of Simplified/Full/ActiveSet and one-step exactness on QP/affine specs; distinct = (spec, point, dt, rho, active set) "
        "with a non-empty active set or a violated nonlinear row; the active set selected by the rule (default, tau=dt/4, dt, 4dt) at the base and at a "
        "later Newton iterate, per step solver, against p(tau) = x - tau((x-x0)/dt + grad L); indefinite QPs with an inertia-revealing linear "
        "solver and inertia_correction: Newton step for the requested dt when the inertia is right, failure when it is wrong")
ASSUMPTIONS = ["direct solver tolerance 1e-10*cond(F'), iterative solvers 20*cond(F')*max(1e-8, 1e-5*|rhs|) (their stated stopping rule)",
               "systems with reference condition number above 1e6 are counted but not compared",
               "a LinearSolverError/StepSolverError raised by an iterative solver is a loud failure, not a disagreement"]
CASE_ALARM_S = 300

RHOS = [1e-2, 1.0, 50.0]
DTS = [1e-2, 1.0, 20.0]
SOLVERS = [(s, "LU") for s in ("Standard", "Extended", "Symmetric", "Asymmetric")] + \
          [(s, "GMRES") for s in ("Standard", "Extended", "Symmetric", "Asymmetric")] + [("Symmetric", "MINRES")]


def cases(tier, seed):
    out = []
    if tier == "quick":
        table = [(["boxed", "lower"], "cubic", [("bilinear", "eq0")]),
                 (["boxed", "free"], "qfull", [("affine", "ranged"), ("affine", "eqoff")]),
                 (["upper", "boxed"], "rosen", [("sphere", "upper")]),
                 (["free", "free"], "exp", [("sphere", "eq0"), ("bilinear", "lower")]),
                 (["boxed"], "cubic", [("sphere", "eqoff")])]
    else:
        table = []
        for vk in [["boxed", "lower"], ["boxed", "free"], ["upper", "boxed"], ["free", "free"], ["fixed", "boxed"], ["boxed"], ["lower"]]:
            for obj in ["cubic", "qfull", "rosen", "exp"]:
                for rows in [[("bilinear", "eq0")], [("affine", "ranged"), ("affine", "eqoff")], [("sphere", "upper")],
                             [("sphere", "eq0"), ("bilinear", "lower")], [("cubic", "eqoff")], []]:
                    table.append((vk, obj, rows))
    for ti, (vk, obj, rows) in enumerate(table):
        for (ri, rho) in enumerate(RHOS):
            for (di, dt) in enumerate(DTS):
                out.append({"vk": vk, "obj": obj, "rows": [list(r) for r in rows], "rho": rho, "dt": dt})
        # the same problem returning its matrices in other storage forms (duplicate COO entries = sums, CSR, CSC)
        for fi, fmt in enumerate(("coo_dup", "csr", "csc")):
            if tier == "quick" or ti % 3 == fi:
                out.append({"vk": vk, "obj": obj, "rows": [list(r) for r in rows], "rho": RHOS[(ti + fi) % 3], "dt": DTS[(ti + 2 * fi) % 3], "fmt": fmt})
    # inertia-revealing linear solver + inertia_correction (symmetric step solver): step for THIS dt, or failure
    for hi in range(3):
        for rows in ([], [["affine", "eq0"]], [["sphere", "upper"]]):
            for dt in (2.0, 1.0, 0.5, 0.125):
                out.append({"inertia": True, "hi": hi, "rows": rows, "rho": 1.0, "dt": dt})
    # problems posed in very small / very large units (x and boxes ~ u, Hessian ~ 1/u, step size ~ u): displacements of 1e-9 are not "zero"
    for u in (1e-9, 1e-6, 1e6):
        for rows in (0, 1):
            for dtf in (0.25, 1.0, 8.0):
                out.append({"units": u, "nrows": rows, "rho": 1.0, "dtf": dtf})
    # huge step sizes (dt = 1e9 ... 1e12; lamb_min is 1e-12) on problems with curvature-free directions (LP part, slack variables)
    for dt in (1e9, 1e10, 1e12):
        for nrows in (0, 1):
            out.append({"hugedt": True, "dt": dt, "nrows": nrows, "rho": 1.0})
    for pattern in ("boxed", "mixed"):
        for k in ((0, 2) if tier == "quick" else range(5)):
            for rho in RHOS:
                for dt in DTS:
                    out.append({"large": True, "n": 20 if tier == "quick" or k % 2 == 0 else 50, "pattern": pattern, "k": k, "rho": rho, "dt": dt})
    return out


def large_case(case):
    """Banded QP with 20 variables and 4 rows: every step solver with LU on a family of prescribed active sets (the implementations
    switch algorithms with size, e.g. numpy's sort)."""
    from pygradflow.iterate import Iterate
    from pygradflow.step.solver import step_solver
    from pygradflow.step.step_solver_error import StepSolverError
    from pygradflow.transform import Transformation
    from pgfmc.drive.problems import UserProblem
    from pgfmc.drive.run import make_params

    spec = S.banded_qp(case["n"], case["pattern"], case["k"])
    rho, dt = case["rho"], case["dt"]
    prob = UserProblem(spec)
    F = O.Funcs(spec)
    T = O.RefTrans(F)
    viol, keys = [], []
    stats = {"solves": 0, "compared": 0, "illcond": 0, "solver_failed": 0}
    N = T.n
    xb = np.clip(np.array([0.3 * (-1) ** i for i in range(N)]), T.var_lb, T.var_ub)
    y = np.array([0.5 * (-1) ** i for i in range(T.m)])
    R0 = O.RefPoint(T, xb, y)
    p0 = O.implicit_p(T, (xb, y), R0, rho, dt)
    sets = [O.implicit_active(T, p0), np.zeros(N, dtype=bool), np.array([i % 3 == 0 for i in range(N)]), np.array([i % 2 == 1 for i in range(N)]),
            np.array([i >= N - 5 for i in range(N)]), np.array([i < 7 for i in range(N)])]
    for ai, A in enumerate(sets):
        Jm = O.implicit_jac(T, R0, rho, dt, A)
        cond = np.linalg.cond(Jm)
        if not np.isfinite(cond) or cond > 1e6:
            stats["illcond"] += 1
            continue
        s = np.linalg.solve(Jm, O.implicit_value(T, (xb, y), R0, rho, dt, A))
        xn = np.clip(xb - s[:N], T.var_lb, T.var_ub)
        yn = y - s[N:]
        scale = max(1.0, float(np.max(np.abs(s))))
        keys.append(f"{spec['tag']}|{ai}|{rho}|{dt}")
        for ss in ("Standard", "Extended", "Symmetric", "Asymmetric"):
            params = make_params({"step_solver": ss})
            tr = Transformation(prob, params)
            P, ev = tr.trans_problem, tr.evaluator
            it0 = Iterate(P, params, xb, y, ev)
            stats["solves"] += 1
            try:
                with np.errstate(all="ignore"):
                    sv = step_solver(P, params, it0, dt, rho)
                    sv.update_active_set(A)
                    sv.update_derivs(it0)
                    res = sv.solve(it0)
            except StepSolverError:
                stats["solver_failed"] += 1
                viol.append({"sig": f"C14|large|lu_failed|{ss}", "msg": f"LU failed on a well-conditioned system (cond {cond:.1e}) n={N}"})
                continue
            err = max(float(np.max(np.abs(res.iterate.x - xn))), float(np.max(np.abs(res.iterate.y - yn), initial=0.0)))
            stats["compared"] += 1
            if not np.isfinite(err) or err > 1e-10 * cond * scale:
                viol.append({"sig": f"C14|large|step|{ss}", "msg": f"n={N}: step differs from the dense Newton step by {err:.3e} (cond {cond:.1e}), active set #{ai} "
                                                                  f"with {int(A.sum())} active of {N}; rho={rho} dt={dt}"})
    seen, vs = set(), []
    for v in viol:
        if v["sig"] not in seen:
            seen.add(v["sig"]); vs.append(v)
    return {"outcome": "agree" if not viol else "violating", "key": keys, "violations": vs, "stats": stats}


class _InertiaSolver:
    """LU with the inertia of the (symmetric) matrix attached, as the native symmetric-indefinite solvers report it."""

    def __init__(self, inner, mat):
        self.inner = inner
        self.neg = int((np.linalg.eigvalsh(mat.toarray()) < 0).sum())

    def solve(self, rhs, trans=False, initial_sol=None):
        return self.inner.solve(rhs, trans=trans, initial_sol=initial_sol)

    def num_neg_eigvals(self):
        return self.neg

    def __getattr__(self, name):
        return getattr(self.inner, name)


INDEF = [[[1.0, 0.0], [0.0, -3.0]], [[-1.0, 2.0], [2.0, 1.0]], [[2.0, 0.5], [0.5, 1.0]]]


def inertia_case(case):
    import pygradflow.linear_solver as pls
    from pygradflow.iterate import Iterate
    from pygradflow.step.solver import step_solver
    from pygradflow.step.step_solver_error import StepSolverError
    from pygradflow.transform import Transformation
    from pgfmc.drive import grid as G
    from pgfmc.drive.problems import UserProblem
    from pgfmc.drive.run import make_params

    rows = [S.row(r[0], r[1], 2) for r in case["rows"]] if case["rows"] else []
    spec = G.raw(2, {"H": INDEF[case["hi"]], "g": [0.5, -1.0]}, rows, [-2.0, "-inf"], [2.0, 1.5], [0.25, -0.5], f"indef{case['hi']}|{case['rows']}")
    rho, dt = case["rho"], case["dt"]
    prob = UserProblem(spec)
    F = O.Funcs(spec)
    T = O.RefTrans(F)
    params = make_params({"step_solver": "Symmetric", "params": {"inertia_correction": True}})
    tr = Transformation(prob, params)
    P, ev = tr.trans_problem, tr.evaluator
    m = T.m
    viol, keys = [], []
    stats = {"solves": 0, "compared": 0, "inertia_refused": 0}
    orig = pls.linear_solver
    made = []

    def factory(mat, solver_type, symmetric=False):
        sv_ = _InertiaSolver(orig(mat, solver_type, symmetric=symmetric), mat)
        made.append(sv_)
        return sv_

    pls.linear_solver = factory
    try:
        for xb in (np.clip(np.array([0.2, -0.3, 0.1][: T.n]), T.var_lb, T.var_ub), np.clip(np.array([3.0, -3.0, 2.0][: T.n]), T.var_lb, T.var_ub)):
            for y in (np.array([1.5, -2.0][:m]), np.zeros(m)):
                R0 = O.RefPoint(T, xb, y)
                for bits in itertools.product([False, True], repeat=T.n):
                    A = np.array(bits, dtype=bool)
                    Jm = O.implicit_jac(T, R0, rho, dt, A)
                    cond = np.linalg.cond(Jm)
                    if not np.isfinite(cond) or cond > 1e6:
                        continue
                    s_ = np.linalg.solve(Jm, O.implicit_value(T, (xb, y), R0, rho, dt, A))
                    xn = np.clip(xb - s_[: T.n], T.var_lb, T.var_ub)
                    yn = y - s_[T.n:]
                    it0 = Iterate(P, params, xb, y, ev)
                    del made[:]
                    stats["solves"] += 1
                    at = {"base": xb.tolist(), "y0": y.tolist(), "active": [int(b) for b in bits], "rho": rho, "dt": dt}
                    try:
                        with np.errstate(all="ignore"):
                            sv = step_solver(P, params, it0, dt, rho)
                            sv.update_active_set(A)
                            sv.update_derivs(it0)
                            res = sv.solve(it0)
                        failed = False
                    except StepSolverError:
                        failed = True
                    if not made:
                        continue
                    # the inertia that counts is that of the FIRST matrix built for the requested step size
                    wrong = made[0].neg != m
                    keys.append(f"{spec['tag']}|{at['active']}|{dt}|{xb.tolist()}|{y.tolist()}")
                    if wrong:
                        stats["inertia_refused"] += 1
                        if not failed:
                            viol.append({"sig": "C14|inertia|wrong_inertia_not_refused", "msg": f"matrix for dt={dt} has {made[0].neg} negative eigenvalues (m={m}) but the "
                                         f"step solver returned a step instead of failing ({len(made)} factorisations) at {at}", "detail": at})
                        continue
                    if failed:
                        viol.append({"sig": "C14|inertia|refused_correct_inertia", "msg": f"matrix has the right inertia but the step solver failed at {at}", "detail": at})
                        continue
                    err = max(float(np.max(np.abs(res.iterate.x - xn))), float(np.max(np.abs(res.iterate.y - yn), initial=0.0)))
                    stats["compared"] += 1
                    if not np.isfinite(err) or err > 1e-10 * cond * max(1.0, float(np.max(np.abs(s_)))):
                        viol.append({"sig": "C14|inertia|step", "msg": f"step differs from the dense Newton step for dt={dt} by {err:.3e} at {at}", "detail": at})
    finally:
        pls.linear_solver = orig
    seen, vs = set(), []
    for v in viol:
        if v["sig"] not in seen:
            seen.add(v["sig"]); vs.append(v)
    return {"outcome": "agree" if not viol else "violating", "key": keys, "violations": vs, "stats": stats}


def units_case(case):
    from pygradflow.iterate import Iterate
    from pygradflow.step.solver import step_solver
    from pygradflow.step.step_solver_error import StepSolverError
    from pygradflow.transform import Transformation
    from pgfmc.drive import grid as G
    from pgfmc.drive.problems import UserProblem
    from pgfmc.drive.run import make_params

    u = case["units"]
    H = (np.array([[2.0, 0.5, 0.0], [0.5, 1.0, -0.25], [0.0, -0.25, 1.5]]) / u).tolist()
    rows = [{"a": [1.0, 1.0, 0.0], "b": 0.0, "lb": -0.5 * u, "ub": 0.75 * u}] if case["nrows"] else []
    spec = G.raw(3, {"H": H, "g": [1.0, -2.0, 0.5]}, rows, [-1.0 * u, -2.0 * u, "-inf"], [2.0 * u, 1.5 * u, 3.0 * u], [0.5 * u, -0.3 * u, 0.1 * u], f"units|{u:g}|{case['nrows']}")
    rho, dt = case["rho"], case["dtf"] * u
    prob = UserProblem(spec)
    F = O.Funcs(spec)
    T = O.RefTrans(F)
    m = T.m
    viol, keys = [], []
    stats = {"solves": 0, "compared": 0, "illcond": 0}
    bases = [np.clip(np.array([0.5, -0.3, 0.1, 0.2][: T.n]) * u, T.var_lb, T.var_ub),
             # points within 1e-9 .. 1e-8 (absolute) of a bound: the clipped displacement of an active variable is tiny but not zero
             np.clip(np.array([2.0 * u - min(3e-9, 0.5 * u), -2.0 * u + min(7e-9, 0.5 * u), 0.1 * u, 0.2 * u][: T.n]), T.var_lb, T.var_ub)]
    for ss in ("Standard", "Extended", "Symmetric", "Asymmetric"):
        params = make_params({"step_solver": ss})
        tr = Transformation(prob, params)
        P, ev = tr.trans_problem, tr.evaluator
        for xb in bases:
            for y in (np.array([1.5][:m]), np.zeros(m)):
                R0 = O.RefPoint(T, xb, y)
                for bits in itertools.product([False, True], repeat=T.n):
                    A = np.array(bits, dtype=bool)
                    Jm = O.implicit_jac(T, R0, rho, dt, A)
                    cond = np.linalg.cond(Jm)
                    if not np.isfinite(cond) or cond > 1e8:
                        stats["illcond"] += 1
                        continue
                    s_ = np.linalg.solve(Jm, O.implicit_value(T, (xb, y), R0, rho, dt, A))
                    xn = np.clip(xb - s_[: T.n], T.var_lb, T.var_ub)
                    yn = y - s_[T.n:]
                    it0 = Iterate(P, params, xb, y, ev)
                    stats["solves"] += 1
                    at = {"units": u, "base": xb.tolist(), "y0": y.tolist(), "active": [int(b) for b in bits], "rho": rho, "dt": dt}
                    try:
                        with np.errstate(all="ignore"):
                            sv = step_solver(P, params, it0, dt, rho)
                            sv.update_active_set(A)
                            sv.update_derivs(it0)
                            res = sv.solve(it0)
                    except StepSolverError:
                        viol.append({"sig": f"C14|units|lu_failed|{ss}", "msg": f"direct solver failed (cond {cond:.1e}) at {at}", "detail": at})
                        continue
                    if A.any():
                        keys.append(f"{spec['tag']}|{ss}|{at['active']}|{dt}|{xb.tolist()}|{y.tolist()}")
                    # x-components in units of u, y-components in units of 1
                    ex = float(np.max(np.abs(res.iterate.x - xn))) / max(u, float(np.max(np.abs(s_[: T.n]))))
                    ey = float(np.max(np.abs(res.iterate.y - yn), initial=0.0)) / max(1.0, float(np.max(np.abs(s_[T.n:]), initial=0.0)))
                    stats["compared"] += 1
                    if not np.isfinite(ex + ey) or max(ex, ey) > 1e-9 * cond:
                        viol.append({"sig": f"C14|units|step|{ss}", "msg": f"step differs from the dense Newton step by relative {max(ex, ey):.3e} (cond {cond:.1e}) at {at}: "
                                     f"got x={res.iterate.x.tolist()} want {xn.tolist()}", "detail": at})
    seen, vs = set(), []
    for v in viol:
        if v["sig"] not in seen:
            seen.add(v["sig"]); vs.append(v)
    return {"outcome": "agree" if not viol else "violating", "key": keys, "violations": vs, "stats": stats}


def _ld_solve(A, b):
    """Gaussian elimination with partial pivoting in extended precision (reference for systems of condition 1e9 ... 1e13)."""
    A = np.array(A, dtype=np.longdouble)
    b = np.array(b, dtype=np.longdouble)
    n = len(b)
    for k in range(n):
        p = k + int(np.argmax(np.abs(A[k:, k])))
        if p != k:
            A[[k, p]] = A[[p, k]]
            b[[k, p]] = b[[p, k]]
        for i in range(k + 1, n):
            f = A[i, k] / A[k, k]
            A[i, k:] -= f * A[k, k:]
            b[i] -= f * b[k]
    x = np.zeros(n, dtype=np.longdouble)
    for k in range(n - 1, -1, -1):
        x[k] = (b[k] - A[k, k + 1:].dot(x[k + 1:])) / A[k, k]
    return np.array(x, dtype=float)


def hugedt_case(case):
    from pygradflow.iterate import Iterate
    from pygradflow.step.solver import step_solver
    from pygradflow.step.step_solver_error import StepSolverError
    from pygradflow.transform import Transformation
    from pgfmc.drive import grid as G
    from pgfmc.drive.problems import UserProblem
    from pgfmc.drive.run import make_params

    rows = [{"a": [1.0, 1.0, 0.5], "b": 0.0, "lb": -0.5, "ub": 0.75}] if case["nrows"] else []
    # x0: curvature 2, x1: curvature-free (linear part), x2: tiny curvature
    spec = G.raw(3, {"H": [[2.0, 0.0, 0.0], [0.0, 0.0, 0.0], [0.0, 0.0, 1e-3]], "g": [1.0, -2.0, 0.5]}, rows, [-1.0, -2.0, "-inf"], [2.0, 1.5, 3.0],
                 [0.5, -0.3, 0.1], f"hugedt|{case['nrows']}")
    rho, dt = case["rho"], case["dt"]
    prob = UserProblem(spec)
    F = O.Funcs(spec)
    T = O.RefTrans(F)
    m = T.m
    viol, keys = [], []
    stats = {"solves": 0, "compared": 0}
    xb = np.clip(np.array([0.5, -0.3, 0.1, 0.2][: T.n]), T.var_lb, T.var_ub)
    for ss in ("Standard", "Extended", "Symmetric", "Asymmetric"):
        params = make_params({"step_solver": ss})
        tr = Transformation(prob, params)
        P, ev = tr.trans_problem, tr.evaluator
        for y in (np.array([1.5][:m]), np.zeros(m)):
            R0 = O.RefPoint(T, xb, y)
            for bits in itertools.product([False, True], repeat=T.n):
                A = np.array(bits, dtype=bool)
                # reference from the residual scaled by 1/dt (entries of order one and 1/dt), solved in extended precision
                Jm = O.implicit_jac(T, R0, rho, dt, A) / dt
                Fv = O.implicit_value(T, (xb, y), R0, rho, dt, A) / dt
                cond = np.linalg.cond(Jm)
                if not np.isfinite(cond) or cond > 1e14:
                    continue
                s_ = _ld_solve(Jm, Fv)
                xn = np.clip(xb - s_[: T.n], T.var_lb, T.var_ub)
                yn = y - s_[T.n:]
                it0 = Iterate(P, params, xb, y, ev)
                stats["solves"] += 1
                at = {"base": xb.tolist(), "y0": y.tolist(), "active": [int(b) for b in bits], "rho": rho, "dt": dt}
                try:
                    with np.errstate(all="ignore"):
                        sv = step_solver(P, params, it0, dt, rho)
                        sv.update_active_set(A)
                        sv.update_derivs(it0)
                        res = sv.solve(it0)
                except StepSolverError:
                    continue  # a direct solver may refuse systems of this condition
                keys.append(f"{spec['tag']}|{ss}|{at['active']}|{dt}|{y.tolist()}")
                scale = max(1.0, float(np.max(np.abs(s_))))
                err = max(float(np.max(np.abs(res.iterate.x - xn))), float(np.max(np.abs(res.iterate.y - yn), initial=0.0))) / scale
                stats["compared"] += 1
                if not np.isfinite(err) or err > max(1e-8, 100.0 * cond * 2.2e-16):
                    viol.append({"sig": f"C14|hugedt|step|{ss}", "msg": f"step for dt={dt:g} differs from the (extended precision) dense Newton step by relative {err:.3e} "
                                 f"(cond {cond:.1e}) at {at}: got x={res.iterate.x.tolist()} want {xn.tolist()}", "detail": at})
    seen, vs = set(), []
    for v in viol:
        if v["sig"] not in seen:
            seen.add(v["sig"]); vs.append(v)
    return {"outcome": "agree" if not viol else "violating", "key": keys, "violations": vs, "stats": stats}


def run_case(case):
    if case.get("large"):
        return large_case(case)
    if case.get("hugedt"):
        return hugedt_case(case)
    if case.get("inertia"):
        return inertia_case(case)
    if case.get("units"):
        return units_case(case)
    from pygradflow.iterate import Iterate
    from pygradflow.newton import newton_method
    from pygradflow.step.solver import step_solver
    from pygradflow.step.step_solver_error import StepSolverError
    from pygradflow.transform import Transformation
    from pgfmc.drive.problems import UserProblem
    from pgfmc.drive.run import make_params, RecordLinear

    n = len(case["vk"])
    spec = S.mk(n, case["obj"], [tuple(r) for r in case["rows"]], case["vk"], fmt=case.get("fmt", "coo"))
    m = len(case["rows"])
    rho, dt = case["rho"], case["dt"]
    prob = UserProblem(spec)
    F = O.Funcs(spec)
    T = O.RefTrans(F)
    isqp = prob.hess_const
    viol, keys = [], []
    stats = {"solves": 0, "compared": 0, "illcond": 0, "solver_failed": 0, "exact_checked": 0, "first_step": 0}

    def bad(what, msg, at):
        if len(viol) < 30:
            viol.append({"sig": f"C14|{what}", "msg": f"{what}: {msg} at {at}", "detail": at})

    ys = [np.array([1.5, -2.0][:m]), np.zeros(m)]
    base_pts = [np.clip(np.array([0.2, -0.3, 0.1, 0.4][: T.n]), T.var_lb, T.var_ub),
                np.clip(np.array([3.0, -3.0, 2.0, -2.0][: T.n]), T.var_lb, T.var_ub)]  # second one sits on bounds
    params_cache = {}

    def P_of(ss, ls, newton="Simplified"):
        k = (ss, ls, newton)
        if k not in params_cache:
            params = make_params({"step_solver": ss, "linear": ls, "newton": newton})
            tr = Transformation(prob, params)
            params_cache[k] = (params, tr.trans_problem, tr.evaluator)
        return params_cache[k]

    for bi, xb in enumerate(base_pts):
        for yi, y in enumerate(ys):
            evals = [(xb, y)]
            other = base_pts[1 - bi]
            evals.append((0.5 * (xb + other), 0.5 * y + 0.25))
            R0 = O.RefPoint(T, xb, y)
            for ei, (xe, ye) in enumerate(evals):
                Re = O.RefPoint(T, xe, ye)
                for bits in itertools.product([False, True], repeat=T.n):
                    A = np.array(bits, dtype=bool)
                    at = {"base": xb.tolist(), "y0": y.tolist(), "x": xe.tolist(), "y": ye.tolist(), "active": [int(b) for b in bits],
                          "rho": rho, "dt": dt}
                    for dmode in (("base",) if ei == 0 else ("base", "current")):
                        # derivatives at the base iterate (Simplified / ActiveSet) or at the evaluation point (Full Newton, 2nd+ step)
                        Jm = O.implicit_jac(T, R0 if dmode == "base" else Re, rho, dt, A)
                        Fv = O.implicit_value(T, (xb, y), Re, rho, dt, A)
                        cond = np.linalg.cond(Jm)
                        if not np.isfinite(cond) or cond > 1e6:
                            stats["illcond"] += 1
                            continue
                        s = np.linalg.solve(Jm, Fv)
                        xn = np.clip(xe - s[: T.n], T.var_lb, T.var_ub)
                        yn = ye - s[T.n:]
                        scale = max(1.0, float(np.max(np.abs(s))), float(np.max(np.abs(xn))), float(np.max(np.abs(yn), initial=0)))
                        nontriv = A.any() or (m > 0 and not prob.jac_const and Re.cons_violation > 1e-3)
                        if nontriv:
                            keys.append(f"{spec['tag']}|{spec.get('fmt')}|{bi}{yi}{ei}{dmode}|{at['active']}|{rho}|{dt}")
                        for ss, ls in SOLVERS:
                            params, P, ev = P_of(ss, ls)
                            it0 = Iterate(P, params, xb, y, ev)
                            ite = it0 if ei == 0 else Iterate(P, params, xe, ye, ev)
                            stats["solves"] += 1
                            rl = RecordLinear()
                            try:
                                with np.errstate(all="ignore"), rl:
                                    sv = step_solver(P, params, it0, dt, rho)
                                    sv.update_active_set(A)
                                    sv.update_derivs(it0 if dmode == "base" else ite)
                                    res = sv.solve(ite)
                                    gx, gy = res.iterate.x, res.iterate.y
                            except StepSolverError:
                                stats["solver_failed"] += 1
                                if ls == "LU":
                                    bad(f"lu_failed|{ss}", "direct solver failed on a well-conditioned system (cond %.2e)" % cond, at)
                                continue
                            lam = 1.0 / dt
                            if ls == "LU":
                                tol = 1e-10 * cond * scale
                            else:
                                # bound from the linear system actually handed to the iterative solver and its
                                # stated stopping rule (GMRES: |r| <= max(1e-8, 1e-5|b|); MINRES: |r| <= 1e-5(|A||x|+|b|))
                                sysm = rl.systems[-1]
                                Mi = np.linalg.norm(np.linalg.inv(sysm["mat"]), 2) if sysm["mat"].size else 0.0
                                rhs_, sol_, _ = sysm["solves"][-1]
                                if ls == "GMRES":
                                    rres = max(1e-8, 1e-5 * float(np.linalg.norm(rhs_)))
                                else:
                                    rres = 1e-5 * (float(np.linalg.norm(sysm["mat"], 2)) * float(np.linalg.norm(sol_)) + float(np.linalg.norm(rhs_)))
                                # a solver that misses its own stopping rule is C17's concern: use the achieved residual
                                ares = float(np.linalg.norm(sysm["mat"].dot(sol_) - rhs_))
                                if ares > rres:
                                    stats["iter_missed_tol"] = stats.get("iter_missed_tol", 0) + 1
                                tol = 2.0 * Mi * max(rres, ares) + 1e-10 * cond * scale
                            err = max(float(np.max(np.abs(gx - xn))), float(np.max(np.abs(gy - yn), initial=0.0)))
                            stats["compared"] += 1
                            if not np.isfinite(err) or err > tol:
                                bad(f"step|{ss}|{ls}", f"step differs from the dense Newton step by {err:.3e} (tol {tol:.3e}, cond {cond:.2e}): "
                                    f"got x={gx.tolist()} y={gy.tolist()} want x={xn.tolist()} y={yn.tolist()}", at)
            # Newton variants: same first step; QP exactness
            R0 = O.RefPoint(T, xb, y)
            for tau in (None, 0.25 * dt, 4.0 * dt):
                firsts = {}
                for newton in ("Simplified", "Full", "ActiveSet"):
                    params, P, ev = P_of("Standard", "LU", newton)
                    it0 = Iterate(P, params, xb, y, ev)
                    with np.errstate(all="ignore"):
                        meth = newton_method(P, params, it0, dt, rho, tau)
                        st = meth.step(it0)
                    firsts[newton] = (st.iterate.x.copy(), st.iterate.y.copy(), meth, st, it0, P, params, ev)
                stats["first_step"] += 1
                fx, fy = firsts["Simplified"][:2]
                sc = max(1.0, float(np.max(np.abs(fx))), float(np.max(np.abs(fy), initial=0)))
                for newton in ("Full", "ActiveSet"):
                    gx, gy = firsts[newton][:2]
                    if not (np.allclose(gx, fx, rtol=0, atol=1e-12 * sc) and np.allclose(gy, fy, rtol=0, atol=1e-12 * sc)):
                        bad(f"first_step|{newton}", f"first step (active-set parameter tau={tau}) differs from Simplified: {gx.tolist()},{gy.tolist()} vs {fx.tolist()},{fy.tolist()}",
                            {"base": xb.tolist(), "y0": y.tolist(), "rho": rho, "dt": dt, "tau": tau})
                # dense reference with the active set of the rule: p = x0 - tau * grad L (at the first step x = x0)
                tt = dt if tau is None else tau
                p_t = xb - tt * R0.dx(rho)
                margin_t = np.minimum(np.abs(p_t - (T.var_lb - 1e-8)), np.abs(p_t - (T.var_ub + 1e-8)))
                if (margin_t > 1e-9 * max(1.0, float(np.max(np.abs(p_t))))).all():
                    A_t = O.implicit_active(T, p_t)
                    Jt = O.implicit_jac(T, R0, rho, dt, A_t)
                    ct = np.linalg.cond(Jt)
                    if np.isfinite(ct) and ct < 1e6:
                        s_t = np.linalg.solve(Jt, O.implicit_value(T, (xb, y), R0, rho, dt, A_t))
                        xn_t = np.clip(xb - s_t[: T.n], T.var_lb, T.var_ub)
                        err_t = max(float(np.max(np.abs(fx - xn_t))), float(np.max(np.abs(fy - (y - s_t[T.n:])), initial=0.0)))
                        if err_t > 1e-10 * ct * max(1.0, float(np.max(np.abs(s_t)))):
                            bad("first_step|reference", f"first Simplified step with tau={tau} differs from the dense step for the rule's active set {A_t.astype(int).tolist()} by {err_t:.3e}",
                                {"base": xb.tolist(), "y0": y.tolist(), "rho": rho, "dt": dt, "tau": tau})
            # the active set the rule selects at the base AND at a later Newton iterate (x != x0), for every step solver:
            # p(tau) = x - tau * ((x - x0) / dt + grad_x L_rho(x, y)),  tau = dt by default
            for ss_ in ("Standard", "Extended", "Symmetric", "Asymmetric"):
                params, P, ev = P_of(ss_, "LU")
                it0 = Iterate(P, params, xb, y, ev)
                with np.errstate(all="ignore"):
                    sv = step_solver(P, params, it0, dt, rho)
                for (xe, ye) in evals:
                    ite = Iterate(P, params, xe, ye, ev)
                    Re = O.RefPoint(T, xe, ye)
                    for tau in (None, 0.25 * dt, dt, 4.0 * dt):
                        tt = dt if tau is None else tau
                        p_t = xe - tt * ((xe - xb) / dt + Re.dx(rho))
                        amb = 1e-8 * max(1.0, dt) + 1e-9 * max(1.0, float(np.max(np.abs(p_t))))
                        if (np.abs(p_t - T.var_lb) <= amb).any() or (np.abs(p_t - T.var_ub) <= amb).any():
                            continue
                        with np.errstate(all="ignore"):
                            A_impl = np.asarray(sv.func.compute_active_set(ite, rho, tau), dtype=bool)
                        A_ref = (p_t < T.var_lb) | (p_t > T.var_ub)
                        stats["rule_sets"] = stats.get("rule_sets", 0) + 1
                        if not np.array_equal(A_impl, A_ref):
                            bad(f"rule_active_set|{ss_}", f"active set selected with tau={tau} at a Newton iterate is {A_impl.astype(int).tolist()}, "
                                f"reference {A_ref.astype(int).tolist()} (p={p_t.tolist()})",
                                {"base": xb.tolist(), "y0": y.tolist(), "x": xe.tolist(), "y": ye.tolist(), "rho": rho, "dt": dt, "tau": tau})
            # sequences of steps on ONE method object: iterates whose natural active sets alternate (A, B, A, C)
            near1 = np.clip(xb + 0.03125 * np.resize(np.array([1.0, -1.0, 0.5]), T.n), T.var_lb, T.var_ub)
            near2 = np.clip(xb - 0.0625 * np.resize(np.array([0.5, 1.0, -1.0]), T.n), T.var_lb, T.var_ub)
            seq = [(xb, y), (near1, y + 0.125), (near2, y - 0.25), (base_pts[1 - bi], 0.5 * y - 0.5), (xb, y),
                   (0.5 * (xb + base_pts[1 - bi]), 0.5 * y + 0.25), (base_pts[1 - bi], 0.5 * y - 0.5), (near1, y + 0.125)]
            for newton in ("Simplified", "Full", "ActiveSet"):
                for ss in ("Standard", "Symmetric", "Extended", "Asymmetric"):
                    params, P, ev = P_of(ss, "LU", newton)
                    it0 = Iterate(P, params, xb, y, ev)
                    with np.errstate(all="ignore"):
                        meth = newton_method(P, params, it0, dt, rho)
                    p0 = O.implicit_p(T, (xb, y), R0, rho, dt)
                    A_orig = O.implicit_active(T, p0)
                    for k, (xs, ysq) in enumerate(seq):
                        Rs = O.RefPoint(T, xs, ysq)
                        ps = O.implicit_p(T, (xb, y), Rs, rho, dt)
                        margin = np.minimum(np.abs(ps - (T.var_lb - 1e-8)), np.abs(ps - (T.var_ub + 1e-8)))
                        if not (margin > 1e-9 * max(1.0, float(np.max(np.abs(ps))))).all():
                            break
                        A_cur = O.implicit_active(T, ps)
                        A_use = A_orig if newton == "Simplified" else A_cur
                        R_der = Rs if newton == "Full" else R0
                        Jm = O.implicit_jac(T, R_der, rho, dt, A_use)
                        condk = np.linalg.cond(Jm)
                        its = Iterate(P, params, xs, ysq, ev)
                        try:
                            with np.errstate(all="ignore"):
                                st = meth.step(its)
                        except StepSolverError:
                            break
                        if not np.isfinite(condk) or condk > 1e6:
                            continue
                        Fv = O.implicit_value(T, (xb, y), Rs, rho, dt, A_use)
                        sref = np.linalg.solve(Jm, Fv)
                        xn = np.clip(xs - sref[: T.n], T.var_lb, T.var_ub)
                        yn = ysq - sref[T.n:]
                        scl = max(1.0, float(np.max(np.abs(sref))), float(np.max(np.abs(xn))), float(np.max(np.abs(yn), initial=0)))
                        err = max(float(np.max(np.abs(st.iterate.x - xn))), float(np.max(np.abs(st.iterate.y - yn), initial=0.0)))
                        stats["seq_steps"] = stats.get("seq_steps", 0) + 1
                        if not np.isfinite(err) or err > 1e-10 * condk * scl:
                            bad(f"sequence|{newton}|{ss}", f"step {k} of a sequence on one {newton} Newton object differs from the dense Newton step by {err:.3e} "
                                f"(active set at this iterate {A_cur.astype(int).tolist()}, at the first {A_orig.astype(int).tolist()})",
                                {"base": xb.tolist(), "y0": y.tolist(), "rho": rho, "dt": dt, "k": k})
                            break
            if isqp:
                for ss in ("Standard", "Extended", "Symmetric", "Asymmetric"):
                    params, P, ev = P_of(ss, "LU", "Full")
                    it0 = Iterate(P, params, xb, y, ev)
                    with np.errstate(all="ignore"):
                        meth = newton_method(P, params, it0, dt, rho)
                        func = meth.func
                        A0 = func.compute_active_set(it0, rho)
                        st = meth.step(it0)
                        A1 = func.compute_active_set(st.iterate, rho)
                    Rn = O.RefPoint(T, st.iterate.x, st.iterate.y)
                    p = O.implicit_p(T, (xb, y), Rn, rho, dt)
                    p_old = O.implicit_p(T, (xb, y), R0, rho, dt)
                    # "unchanged active set": same components active AND at the same bound
                    same_side = np.array_equal(np.clip(p, T.var_lb, T.var_ub)[A0], np.clip(p_old, T.var_lb, T.var_ub)[A0])
                    if np.array_equal(A0, A1) and same_side:
                        full = np.concatenate([st.iterate.x - np.clip(p, T.var_lb, T.var_ub), st.iterate.y - (y + dt * Rn.c)])
                        condq = np.linalg.cond(O.implicit_jac(T, R0, rho, dt, A0))
                        stats["exact_checked"] += 1
                        tolq = 1e-7 + 1e-10 * condq * max(1.0, float(np.max(np.abs(p))))
                        if float(np.max(np.abs(full))) > tolq:
                            bad(f"qp_exact|{ss}", f"one Newton step with unchanged active set leaves residual {float(np.max(np.abs(full))):.3e} (tol {tolq:.2e})",
                                {"base": xb.tolist(), "y0": y.tolist(), "rho": rho, "dt": dt})
    seen, vs = set(), []
    for v in viol:
        if v["sig"] not in seen:
            seen.add(v["sig"]); vs.append(v)
    return {"outcome": "agree" if not viol else "violating", "key": keys, "violations": vs, "stats": stats}


def summarize(cases_, results, tier):
    out = {}
    for k in ("solves", "compared", "illcond", "solver_failed", "exact_checked", "first_step", "iter_missed_tol", "seq_steps", "rule_sets", "inertia_refused"):
        out[k] = sum(r["stats"].get(k, 0) for r in results)
    return out


def vacuity(cases_, results, tier):
    s = summarize(cases_, results, tier)
    out = []
    if s["compared"] < 1000:
        out.append("fewer than 1000 step comparisons")
    if s["exact_checked"] < 10:
        out.append("QP one-step exactness never exercised")
    if s["rule_sets"] < 1000:
        out.append("fewer than 1000 rule-selected active sets compared")
    if s["inertia_refused"] < 20:
        out.append("fewer than 20 systems with the wrong inertia")
    return out
