"""C17 Linear solvers return the solution or fail loudly."""
import itertools

import numpy as np

ID = "C17"
LEVEL = "exploration"
RULE = ("grid: structured matrix catalogue (KKT-like symmetric indefinite incl. the reduced systems of the symmetric step solver, SPD, "
        "unsymmetric, diagonal, scaled permutation; structurally singular: zero row / zero column / duplicate structure; numerically singular) "
        "x magnitude scalings x sparse format {coo, csr, csc} x right-hand sides {e_i, ones, mixed, large} x initial guess {none, zero, exact, perturbed, solution of the oppositely transposed system} x transposed x solver {LU, GMRES, MINRES(symmetric only)}; oracle = dense residual / backward error; distinct = (matrix, rhs, "
        "guess, trans, solver) with a non-diagonal matrix")
ASSUMPTIONS = ["n <= 5; condition numbers <= 1e4 for the 'must solve' class",
               "LU: backward error <= 1e-12; GMRES: |r| <= max(1e-8, 1e-5|b|)(1+1e-2); MINRES: |r| <= 1e-5(|A||x|+|b|)(1+1e-2) (its stopping rule)",
               "only structural singularity obliges LU to raise; MINRES on singular systems is outside the statement"]


def catalogue(tier):
    mats = []

    def add(name, M, cls):
        mats.append((name, np.array(M, dtype=float), cls))

    H2 = [[2.0, 0.5], [0.5, 1.0]]
    add("kkt21", [[2.0, 0.5, 1.0], [0.5, 1.0, -1.0], [1.0, -1.0, -0.25]], "sym")
    add("kkt22", [[2.0, 0.5, 1.0, 1.0], [0.5, 1.0, 1.0, -1.0], [1.0, 1.0, -0.5, 0.0], [1.0, -1.0, 0.0, -0.5]], "sym")
    add("kkt_zero22", [[2.0, 0.5, 1.0], [0.5, 1.0, -1.0], [1.0, -1.0, 0.0]], "sym")
    add("kkt_wide", [[203.25, 0.0, -1.5], [0.0, 1.0, -1.0], [-1.5, -1.0, -0.5]], "sym")  # reduced system seen in a real step
    add("kkt_lam", [[101.0, -1.0, 1.0], [-1.0, 104.0, 2.0], [1.0, 2.0, -50.0]], "sym")
    add("kkt_tiny_diag", [[1e-12, 1.0, 0.5], [1.0, 1e-13, -1.0], [0.5, -1.0, -1e-11]], "sym")   # well conditioned, needs pivoting
    add("kkt_tiny_diag4", [[1e-10, 2.0, 0.0, 1.0], [2.0, 1e-14, 1.0, 0.0], [0.0, 1.0, -1e-12, 3.0], [1.0, 0.0, 3.0, 1e-13]], "sym")
    add("spd3", [[4.0, 1.0, 0.5], [1.0, 3.0, -1.0], [0.5, -1.0, 2.0]], "sym")
    add("negdef2", [[-2.0, 0.5], [0.5, -1.0]], "sym")
    add("diag4", np.diag([1.0, -2.0, 0.5, 8.0]), "sym")
    add("one", [[3.0]], "sym")
    add("unsym3", [[2.0, 1.0, 0.0], [0.0, 3.0, 1.0], [1.0, 0.0, 4.0]], "unsym")
    add("unsym_tri", [[1.0, 2.0, 3.0], [0.0, 1.0, 4.0], [0.0, 0.0, 2.0]], "unsym")
    add("perm3", [[0.0, 2.0, 0.0], [0.0, 0.0, -3.0], [0.5, 0.0, 0.0]], "unsym")
    add("implicit_std", [[1.02, 0.005, 0.01], [0.0, 1.0, 0.0], [-0.01, 0.02, 1.0]], "unsym")
    add("unsym4", [[4.0, -1.0, 0.0, 2.0], [1.0, 3.0, -1.0, 0.0], [0.0, 2.0, 5.0, 1.0], [-2.0, 0.0, 1.0, 3.0]], "unsym")
    if tier == "thorough":
        add("kkt32", [[4.0, 1.0, 0.5, 1.0, 0.0], [1.0, 3.0, -1.0, 1.0, 1.0], [0.5, -1.0, 2.0, 1.0, -1.0],
                      [1.0, 1.0, 1.0, -0.1, 0.0], [0.0, 1.0, -1.0, 0.0, -0.1]], "sym")
        add("spd_ill", [[1000.0, 1.0], [1.0, 0.5]], "sym")
        add("unsym_ill", [[1.0, 100.0], [0.0, 1.0]], "unsym")
        add("rot", [[0.0, -1.0], [1.0, 0.0]], "unsym")
    # larger systems (n=60): Krylov methods need many iterations, so a far initial guess matters
    nb = 60
    T = np.diag(np.linspace(1.0, 8.0, nb)) + np.diag(np.full(nb - 1, -0.45), 1) + np.diag(np.full(nb - 1, -0.45), -1)
    add("spd_band60", T, "sym")
    U = T + np.diag(np.full(nb - 2, 0.3), 2)
    add("unsym_band60", U, "unsym")
    # harder for restarted Krylov methods, still nonsingular and moderately conditioned
    ev = np.logspace(0.0, 3.0, nb)
    add("spd_cond1e3_60", np.diag(ev) + np.diag(np.full(nb - 1, 0.2), 1) + np.diag(np.full(nb - 1, 0.2), -1), "sym")
    sg = np.array([(-1.0) ** i for i in range(nb)]) * np.logspace(0.0, 1.0, nb)
    add("sym_indef_60", np.diag(sg) + np.diag(np.full(nb - 1, 0.3), 1) + np.diag(np.full(nb - 1, 0.3), -1), "sym")
    # singular
    add("zero_row", [[1.0, 2.0, 0.0], [0.0, 0.0, 0.0], [3.0, 0.0, 1.0]], "struct_sing")
    add("zero_col", [[1.0, 0.0, 2.0], [3.0, 0.0, 1.0], [0.0, 0.0, 4.0]], "struct_sing")
    add("zero_rowcol_sym", [[2.0, 0.0, 1.0], [0.0, 0.0, 0.0], [1.0, 0.0, 3.0]], "struct_sing")
    add("struct_rank", [[1.0, 0.0, 0.0], [2.0, 0.0, 0.0], [0.0, 1.0, 1.0]], "struct_sing")  # two rows share their only column
    add("num_sing", [[1.0, 2.0], [2.0, 4.0]], "num_sing")
    add("num_sing3", [[1.0, 1.0, 0.0], [1.0, 1.0, 0.0], [0.0, 0.0, 1.0]], "num_sing")
    return mats


def cases(tier, seed):
    out = []
    scales = [1.0, 2.0 ** -10, 2.0 ** 12, 2.0 ** -20, 2.0 ** -40, 2.0 ** 40] if tier == "thorough" else [1.0, 2.0 ** 12, 2.0 ** -20, 2.0 ** -40]
    for name, M, cls in catalogue(tier):
        for scl in scales:
            for fmt in ("coo", "csr", "csc"):
                out.append({"mat": name, "scale": scl, "fmt": fmt, "tier": tier})
    return out


def rhs_list(n, M):
    out = [("e%d" % i, np.eye(n)[i]) for i in range(n)]
    out.append(("ones", np.ones(n)))
    pat = np.resize(np.array([1.0, -2.0, 0.5, 3.0, -0.25]), n)
    out.append(("mixed", pat))
    out.append(("large", 1e5 * np.resize(np.array([1.0, -1e-5, 0.005, 1.0, 0.1]), n)))
    out.append(("range", M.dot(np.resize(np.array([1.0, 2.0, -1.0, 0.5, 3.0]), n))))
    out.append(("tiny", 1e-10 * np.resize(np.array([1.0, -2.0, 0.5, 3.0, -0.25]), n)))
    if n > 8:
        out = [o for o in out if not o[0].startswith("e")] + [("e0", np.eye(n)[0]), ("e_mid", np.eye(n)[n // 2])]
    return out


def run_case(case):
    import scipy.sparse as sps
    from pygradflow.linear_solver import LinearSolverError, linear_solver
    from pygradflow.params import LinearSolverType

    name, M0, cls = next(t for t in catalogue(case["tier"]) if t[0] == case["mat"])
    M = M0 * case["scale"]
    n = M.shape[0]
    sm = sps.coo_matrix(M).asformat(case["fmt"])
    viol, keys = [], []
    stats = {"solves": 0, "raised": 0, "returned": 0}
    cond = np.linalg.cond(M) if cls in ("sym", "unsym") else np.inf

    def bad(what, msg, at):
        if len(viol) < 30:
            viol.append({"sig": f"C17|{what}", "msg": f"{what}: {msg} at {at}", "detail": at})

    solvers = [("LU", False), ("GMRES", False)]
    if cls == "sym" or (np.array_equal(M, M.T)):
        solvers += [("MINRES", True), ("LU", True), ("GMRES", True)]
    for sname, symflag in solvers:
        st = LinearSolverType[sname]
        at0 = {"mat": name, "scale": case["scale"], "fmt": case["fmt"], "solver": sname, "symmetric": symflag}
        try:
            with np.errstate(all="ignore"):
                solver = linear_solver(sm, st, symmetric=symflag)
        except LinearSolverError:
            stats["raised"] += 1
            if cls in ("sym", "unsym"):
                bad(f"factor_raised|{sname}", f"construction raised LinearSolverError on a nonsingular matrix (cond {cond:.1e})", at0)
            continue
        except Exception as e:
            bad(f"factor_crash|{sname}|{type(e).__name__}", f"construction raised {type(e).__name__}: {e}", at0)
            continue
        if sname == "LU" and cls == "struct_sing":
            bad("lu_accepted_structurally_singular", "LU factorisation of a structurally singular matrix did not raise LinearSolverError", at0)
        held = []   # (returned array, copy at return time)
        for (rn, b) in rhs_list(n, M):
            for trans in (False, True):
                A = M.T if trans else M
                exact = None
                if cls in ("sym", "unsym"):
                    exact = np.linalg.solve(A, b)
                guesses = [("none", None), ("zero", np.zeros(n))]
                if exact is not None:
                    guesses += [("exact", exact), ("perturbed", exact + 1e-3 * np.resize(np.array([1.0, -1.0, 2.0, -2.0, 1.0]), n)),
                                # a guess that is very good but not at rounding level (a direct solver must still solve)
                                ("nearly_exact", exact * (1.0 + 1e-10) + 1e-11 * np.resize(np.array([1.0, -1.0, 2.0]), n)),
                                ("far", exact + 100.0 * max(1.0, float(np.linalg.norm(exact))) * np.resize(np.array([1.0, -1.0, 0.5]), n)),
                                # a warm start that solves the system with the *other* orientation of the matrix
                                ("other_orientation", np.linalg.solve(A.T, b))]
                for gname, g in guesses:
                    if rn == "tiny" and gname in ("perturbed", "far"):
                        continue  # a guess 1e7 ... 1e15 times larger than the solution: its rounding noise exceeds any residual target
                    at = dict(at0, rhs=rn, trans=trans, guess=gname)
                    stats["solves"] += 1
                    if not np.array_equal(np.diag(np.diag(M)), M):
                        keys.append(f"{name}|{case['scale']}|{sname}{int(symflag)}|{rn}|{int(trans)}|{gname}|{case['fmt']}")
                    try:
                        with np.errstate(all="ignore"):
                            if g is None:
                                x = solver.solve(b.copy(), trans=trans)
                            else:
                                x = solver.solve(b.copy(), trans=trans, initial_sol=(lambda g=g: g.copy()))
                    except LinearSolverError:
                        stats["raised"] += 1
                        # a guess whose own rounding noise (eps |A| |guess|) exceeds the solver's residual target cannot be refined to it:
                        # an iterative solver may then report non-convergence
                        noise = 0.0 if g is None else 1e-15 * float(np.linalg.norm(A)) * float(np.linalg.norm(g))
                        target = max(1e-8, 1e-5 * float(np.linalg.norm(b))) if sname == "GMRES" else 1e-5 * (float(np.linalg.norm(A)) * float(np.linalg.norm(exact)) + float(np.linalg.norm(b))) if exact is not None else 0.0
                        if cls in ("sym", "unsym") and cond <= 1e4 and not (sname != "LU" and noise > target):
                            bad(f"solve_raised|{sname}", f"LinearSolverError on a nonsingular system (cond {cond:.1e})", at)
                        continue
                    except Exception as e:
                        bad(f"solve_crash|{sname}|{type(e).__name__}", f"{type(e).__name__}: {e}", at)
                        continue
                    stats["returned"] += 1
                    if isinstance(x, np.ndarray) and len(held) < 6:
                        held.append((x, np.array(x, copy=True)))
                    x = np.asarray(x, dtype=float)
                    if x.shape != (n,) or not np.isfinite(x).all():
                        if cls in ("sym", "unsym") or sname != "MINRES":
                            bad(f"nonfinite|{sname}", f"returned {x.tolist()}", at)
                        continue
                    r = float(np.linalg.norm(A.dot(x) - b))
                    nb = float(np.linalg.norm(b))
                    nA = float(np.linalg.norm(A))  # Frobenius: what MINRES' own |A| estimate is bounded by
                    nx = float(np.linalg.norm(x))
                    if sname == "LU":
                        if cls in ("sym", "unsym") and cond <= 1e4 and r > 1e-12 * (nA * nx + nb):
                            bad("lu_residual", f"backward error {r / (nA * nx + nb):.2e}", at)
                    elif sname == "GMRES":
                        # never returns a vector above its tolerance (singular systems included)
                        # (the absolute part of the tolerance is applied to the maximum norm when a guess is given: sqrt(n) in the 2-norm)
                        gt = max(1e-8 * np.sqrt(n), 1e-5 * nb)
                        if r > gt * 1.01:
                            bad("gmres_unconverged_returned", f"returned residual {r:.3e} > max(1e-8 sqrt(n),1e-5|b|)={gt:.3e}", at)
                    else:
                        if cls in ("sym", "unsym") and cond <= 1e4 and r > 1e-5 * (nA * nx + nb) * 1.01:
                            bad("minres_residual", f"returned residual {r:.3e} > 1e-5(|A||x|+|b|)={1e-5 * (nA * nx + nb):.3e} (cond {cond:.1e})", at)
        for (arr, cp) in held:
            if not np.array_equal(arr, cp, equal_nan=True):
                bad(f"returned_solution_overwritten|{sname}", "a solution returned earlier was changed by a later solve on the same solver object", at0)
                break
    # the same matrix OBJECT with its data updated in place: a new solver request must see the new values
    if cls in ("sym", "unsym") and cond <= 1e4:
        for sname in ("LU", "GMRES") + (("MINRES",) if cls == "sym" else ()):
            st = LinearSolverType[sname]
            sm2 = sps.coo_matrix(M).asformat(case["fmt"])
            b = np.resize(np.array([1.0, -2.0, 0.5, 3.0, -0.25]), n)
            try:
                with np.errstate(all="ignore"):
                    linear_solver(sm2, st, symmetric=(sname == "MINRES")).solve(b.copy())
                    sm2.data *= 3.0
                    sm2.data[0] += 0.5 * abs(sm2.data[0]) if cls == "unsym" else 0.0
                    A2 = sm2.toarray()
                    x2 = linear_solver(sm2, st, symmetric=(sname == "MINRES")).solve(b.copy())
            except LinearSolverError:
                continue
            stats["solves"] += 2
            r2 = float(np.linalg.norm(A2.dot(x2) - b))
            if r2 > 1e-4 * (float(np.linalg.norm(A2)) * float(np.linalg.norm(x2)) + float(np.linalg.norm(b))):
                bad(f"stale_after_inplace_update|{sname}", f"after the matrix was updated in place a newly requested solver returned residual {r2:.2e}",
                    {"mat": name, "fmt": case["fmt"], "solver": sname})
    seen, vs = set(), []
    for v in viol:
        if v["sig"] not in seen:
            seen.add(v["sig"]); vs.append(v)
    return {"outcome": ("ok:" + cls) if not viol else "violating", "key": keys, "violations": vs, "stats": stats}


def summarize(cases_, results, tier):
    return {k: sum(r["stats"].get(k, 0) for r in results) for k in ("solves", "raised", "returned")}
