"""C09 Observation does not perturb the computation."""
import itertools
import logging

import numpy as np

from pgfmc.drive import grid as G
from pgfmc.drive import run as R

ID = "C09"
LEVEL = "exploration"
RULE = ("pairs of complete runs differing only in observer settings, compared byte-wise (every trial step, status, x, y, d, counters): baseline = "
        "WARNING level, no callbacks, nothing displayed. Variants enumerated per (spec, algorithmic configuration): log level {INFO, DEBUG}; "
        "scripted schedules of Display.should_display - ALL 2^8 display patterns on runs cut at 8 iterations (also at DEBUG level), and all "
        "patterns with <= 1 (quick) / 2 (thorough) deviations from never/always on 40-iteration runs; display_interval {0, 1e-16, 0.1} under a "
        "stepping virtual clock; callback sets {recorder, one forcing every lazy property of both iterates, both}; collect_path; report_rcond x "
        "linear solver {LU, GMRES, MINRES}; report_rcond with the k-th transposed solve (used only by the condition estimator) failing, every k up to 8/24. distinct = (base, variant) pairs whose variant actually displayed a row, logged, or called back")
ASSUMPTIONS = ["the schedule of displayed rows is owned by patching Display.should_display (its only nondeterministic input is the wall clock)",
               "log records are formatted and dropped by a sink handler"]
CASE_ALARM_S = 300


def bases(tier):
    specs = [G.core_specs()[0], G.core_specs()[3]] if tier == "quick" else G.core_specs()[:4]
    cfgs = []
    for c in G.configs_star():
        if c["penalty"] in ("DualEquilibration", "ParetoDecrease") and tier == "quick":
            continue
        if c["active_set"] != "Standard" and tier == "quick":
            continue
        cfgs.append(c)
    out = []
    k = 0
    for spec in specs:
        for cfg in cfgs:
            out.append((spec, cfg, G.scalings_of(spec, (0, 1))[k % 2]))
            k += 1
    # objective defined only for x > pole (no variable bounds): some Newton iterates leave the domain
    for pole, x0 in (([-0.3, -0.3], [0.2, 0.2]), ([-0.05, -1.0], [1.0, 0.5])):
        dom = G.raw(2, {"H": [[1.0, 0.0], [0.0, 1.0]], "g": [2.0, 2.0], "logbar": {"mu": 0.1, "pole": pole, "sign": [1.0, 1.0]}}, [],
                    ["-inf", "-inf"], ["inf", "inf"], x0, f"domain_restricted|{pole}")
        for li in (0.1, 1.0):
            for ctl in ("DistanceRatio", "ResiduumRatio", "Exact"):
                out.append((dom, {"control": ctl, "params": {"lamb_init": li, "lamb_inc": 4.0}}, None))
    # ill-conditioned Hessian (reported condition estimates become tiny)
    ill = G.raw(3, {"H": [[1e-5, 0.0, 0.0], [0.0, 1.0, 0.0], [0.0, 0.0, 1e5]], "g": [1.0, -2.0, 3.0]}, [], ["-inf", "-inf", "-inf"], ["inf", "inf", "inf"],
                [1.0, 1.0, 1.0], "ill_conditioned_qp")
    for ctl in ("DistanceRatio", "ResiduumRatio", "Exact"):
        out.append((ill, {"control": ctl}, None))
    # badly conditioned dense Hessians (cond 1e6 .. 1e8) with the unsymmetric step solvers: with an iterative linear solver some of the
    # condition estimator's own (transposed) solves fail naturally
    import numpy as np
    w = np.array([1.0, -2.0, 0.5, 3.0, -1.0, 2.0]); w = w / np.linalg.norm(w)
    Qh = np.eye(6) - 2.0 * np.outer(w, w)
    for cond in (1e6, 1e7, 1e8):
        ev = np.logspace(-np.log10(cond) / 2, np.log10(cond) / 2, 6)
        Hh = Qh.dot(np.diag(ev)).dot(Qh.T)
        Hh = 0.5 * (Hh + Hh.T)
        illd = G.raw(6, {"H": Hh.tolist(), "g": [1.0, -2.0, 3.0, 0.5, -1.0, 2.0]}, [{"a": [1.0, 1.0, 0.0, 0.0, 1.0, 0.0], "b": 0.0, "lb": -1.0, "ub": 2.0}],
                     ["-inf", -4.0, "-inf", "-inf", -3.0, "-inf"], ["inf", 5.0, "inf", 6.0, "inf", "inf"], [1.0, 1.0, 1.0, 0.0, -1.0, 0.5], f"ill_dense|{cond:g}")
        for ss in ("Standard", "Extended", "Asymmetric"):
            out.append((illd, {"step_solver": ss}, None))
    # data in huge units (coefficients 1e6, variables 1e4 .. 1e9): diagnostics with absolute tolerances must not steer the solve
    for uc, ux in ((1e6, 1e4), (1.0, 1e9), (1e-6, 1e-4)):
        hu = G.raw(3, {"H": [[2.0 / ux, 0.0, 0.0], [0.0, 1.0 / ux, 0.0], [0.0, 0.0, 4.0 / ux]], "g": [-2.0, -1.0, -4.0]},
                   [{"a": [uc, uc, uc], "b": 0.0, "lb": 2.0 * uc * ux, "ub": 2.0 * uc * ux}], [0.0, 0.0, 0.0], [3.0 * ux, 3.0 * ux, 3.0 * ux],
                   [0.5 * ux, 0.5 * ux, 0.5 * ux], f"huge_units|{uc:g}|{ux:g}")
        for ss in ("Symmetric", "Standard"):
            out.append((hu, {"step_solver": ss}, None))
    # entropy-regularised quadratic (defined for x > 0 only), far start, large first steps
    for x0 in ([2.5, 3.0], [4.0, 0.5]):
        ent = G.raw(2, {"H": [[2.0, 1.5], [1.5, 2.0]], "g": [0.0, 0.0], "entropy": True}, [], ["-inf", "-inf"], ["inf", "inf"], x0, f"entropy|{x0}")
        for li in (0.1, 0.02):
            for linc in (2.0, 4.0):
                for ctl in ("DistanceRatio", "ResiduumRatio"):
                    out.append((ent, {"control": ctl, "params": {"lamb_init": li, "lamb_inc": linc}}, None))
    return out


def variants(tier):
    v = []
    # (name, dict)
    for lvl in ("INFO", "DEBUG"):
        v.append({"v": "log", "level": lvl, "H": 40})
    for bits in itertools.product([0, 1], repeat=8):
        v.append({"v": "pattern", "H": 8, "pat": list(bits), "level": "WARNING"})
    for bits in (itertools.product([0, 1], repeat=8) if tier == "thorough" else [(1,) * 8, (0, 1) * 4, (1, 0, 0, 1, 1, 0, 1, 0)]):
        v.append({"v": "pattern", "H": 8, "pat": list(bits), "level": "DEBUG"})
    maxdev = 1 if tier == "quick" else 2
    for basebit in (0, 1):
        for k in range(0, (maxdev if basebit == 0 else 1) + 1):
            for pos in itertools.combinations(range(40), k):
                if tier == "quick" and k == 1 and pos[0] % 3 != 0:
                    continue
                pat = [basebit] * 40
                for p in pos:
                    pat[p] = 1 - basebit
                v.append({"v": "pattern", "H": 40, "pat": pat, "level": "WARNING"})
    for iv in (0.0, 1e-16, 0.1):
        v.append({"v": "interval", "H": 40, "interval": iv})
    for cbs in (["rec"], ["force"], ["rec", "force"]):
        v.append({"v": "callbacks", "H": 40, "cbs": cbs})
    v.append({"v": "cb_sequence", "H": 40})
    v.append({"v": "path", "H": 40})
    for lin in ("LU", "GMRES", "MINRES"):
        v.append({"v": "rcond", "H": 40, "linear": lin})
    # failures INSIDE an observer: the k-th transposed solve (only the condition estimator solves with the transpose) fails
    for lin in ("LU", "GMRES"):
        for k in (range(1, 9) if tier == "quick" else range(1, 25)):
            v.append({"v": "rcond_fault", "H": 40, "linear": lin, "k": k})
    v.append({"v": "all", "H": 40})
    return v


def cases(tier, seed):
    out = []
    vs = variants(tier)
    for bi, (spec, cfg, sc) in enumerate(bases(tier)):
        for i in range(0, len(vs), 24):
            out.append({"spec": spec, "cfg": cfg, "sc": sc, "variants": vs[i:i + 24]})
    return out


_PAT = {"pat": None, "k": 0, "shown": 0}


def _should_display(self):
    if self.timer is None:
        return True
    p = _PAT["pat"]
    k = _PAT["k"]
    _PAT["k"] += 1
    b = bool(p[k]) if k < len(p) else False
    _PAT["shown"] += int(b)
    return b


def force(iterate, next_iterate, accept):
    """A well-behaved observer: looks at everything, and copes with trial points the functions are not defined at."""
    from pygradflow.eval import EvalError

    for it in (iterate, next_iterate):
        for look in (lambda: it.obj, lambda: it.obj_grad, lambda: it.cons, lambda: it.cons_jac, lambda: it.active_set,
                     lambda: it.bounds_dual, lambda: it.stat_res, lambda: it.cons_violation, lambda: it.bound_violation,
                     lambda: it.total_res, lambda: it.z, lambda: it.aug_lag(1.0), lambda: it.aug_lag_deriv_x(2.0),
                     lambda: it.is_feasible(1e-6), lambda: it.locally_infeasible(1e-6, 1e-8)):
            try:
                look()
            except EvalError:
                pass
    try:
        iterate.obj_nonlin(next_iterate)
    except EvalError:
        pass
    iterate.dist(next_iterate)


def run_variant(spec, cfg, sc, var):
    import pygradflow.display as pdisplay
    from pygradflow.callbacks import CallbackType

    c = dict(cfg)
    c["iteration_limit"] = var["H"]
    params = dict(c.get("params") or {})
    level = getattr(logging, var.get("level", "WARNING"))
    clock = None
    patched = False
    pre = None
    used = {"shown": 0, "cb": 0}
    lin_faults = None
    v = var["v"]
    if v == "pattern":
        _PAT.update(pat=var["pat"], k=0, shown=0)
        patched = True
    elif v == "interval":
        c["display_interval"] = var["interval"]
        clock = R.VirtualClock(tick=0.03)
    elif v == "callbacks":
        def pre(solver):
            for nm in var["cbs"]:
                if nm == "rec":
                    solver.callbacks.register(CallbackType.ComputedStep, lambda a, b, acc: used.__setitem__("cb", used["cb"] + 1))
                else:
                    solver.callbacks.register(CallbackType.ComputedStep, lambda a, b, acc: (force(a, b, acc), used.__setitem__("cb", used["cb"] + 1)))
    elif v == "cb_sequence":
        # register A, register B, unregister A, register C: B and C must both hear every announced step
        heard = {"A": 0, "B": 0, "C": 0}
        used["heard"] = heard

        def pre(solver):
            hA = solver.callbacks.register(CallbackType.ComputedStep, lambda a, b, acc: heard.__setitem__("A", heard["A"] + 1))
            solver.callbacks.register(CallbackType.ComputedStep, lambda a, b, acc: heard.__setitem__("B", heard["B"] + 1))
            solver.callbacks.unregister(hA)
            solver.callbacks.register(CallbackType.ComputedStep, lambda a, b, acc: heard.__setitem__("C", heard["C"] + 1))
    elif v == "path":
        params["collect_path"] = True
    elif v == "rcond":
        params["report_rcond"] = True
        c["linear"] = var["linear"]
        c["step_solver"] = "Symmetric" if var["linear"] == "MINRES" else c.get("step_solver", "Symmetric")
    elif v == "rcond_fault":
        params["report_rcond"] = True
        c["linear"] = var["linear"]
        lin_faults = R.FaultLinear(fail_trans_solve=[var["k"]])
    elif v == "all":
        params["collect_path"] = True
        params["report_rcond"] = True
        level = logging.DEBUG
        _PAT.update(pat=[1, 0, 1, 1, 0, 0, 1] * 8, k=0, shown=0)
        patched = True

        def pre(solver):
            solver.callbacks.register(CallbackType.ComputedStep, force)
    c["params"] = params
    orig = pdisplay.Display.should_display
    if patched:
        pdisplay.Display.should_display = _should_display
    try:
        ctx = G.execute({"spec": spec, "cfg": c, "sc": sc}, clock=clock, log_level=level, pre=pre, linear_faults=lin_faults,
                        solver_cls=lambda p, prm: R.RecSolver(p, prm, record_callbacks=False))
    finally:
        pdisplay.Display.should_display = orig
    used["shown"] = _PAT["shown"] if patched else 0
    return ctx, c, used


def base_cfg_for(cfg, var):
    """The baseline shares the algorithmic parameters of the variant (linear solver for the rcond variants)."""
    c = dict(cfg)
    c["iteration_limit"] = var["H"]
    if var["v"] in ("rcond", "rcond_fault"):
        c["linear"] = var["linear"]
        c["step_solver"] = "Symmetric" if var["linear"] == "MINRES" else c.get("step_solver", "Symmetric")
    return c


def run_case(case):
    spec, cfg, sc = case["spec"], case["cfg"], case["sc"]
    viol, keys = [], []
    cache = {}
    n = 0
    for var in case["variants"]:
        bc = base_cfg_for(cfg, var)
        if not R.valid_combo(bc):
            continue
        bk = (bc["iteration_limit"], bc.get("linear"), bc.get("step_solver"))
        if bk not in cache:
            b = G.execute({"spec": spec, "cfg": bc, "sc": sc}, solver_cls=lambda p, prm: R.RecSolver(p, prm, record_callbacks=False))
            cache[bk] = b
        b = cache[bk]
        if b.rec is None:
            continue
        ctx, c, used = run_variant(spec, cfg, sc, var)
        n += 1
        vname = var["v"] + (":" + var.get("level", "") if var["v"] in ("log", "pattern") else "")
        if var["v"] == "cb_sequence" and ctx.rec.result is not None:
            h = used["heard"]
            it = ctx.rec.result.iterations
            if h["A"] != 0 or h["B"] != it or h["C"] != it:
                viol.append({"sig": "C09|cb_sequence|announcements", "msg": f"{it} iterations, but the callbacks heard A(unregistered)={h['A']} B={h['B']} C={h['C']}",
                             "case": dict(case, variants=[var])})
        if ctx.rec.digest != b.rec.digest:
            a, bb = ctx.rec, b.rec
            if a.exc is not None and bb.exc is None:
                what = f"observer made the solve fail: {a.exc['cls']}: {a.exc['msg']} ({a.exc['site']})"
                sig = f"C09|{vname}|fails|{a.exc['cls']}|{a.exc['site']}"
            else:
                k = next((i for i, (t1, t2) in enumerate(zip(a.trials, bb.trials)) if t1.bytes() != t2.bytes()), None)
                what = (f"trajectory differs from the unobserved run (first differing trial {k}; {len(a.trials)} vs {len(bb.trials)} trials; "
                        f"status {R.outcome_of(a)} vs {R.outcome_of(bb)})")
                sig = f"C09|{vname}|trajectory"
            viol.append({"sig": sig, "msg": f"{what}; variant={ {k: v for k, v in var.items() if k != 'pat'} } pattern={var.get('pat')}",
                         "case": dict(case, variants=[var])})
        if used["shown"] or used["cb"] or var["v"] in ("log", "interval", "path", "rcond", "rcond_fault"):
            keys.append(f"{spec['tag']}|{G.cfg_key(cfg)}|{sc is not None}|{var}")
    seen, vs = set(), []
    for v in viol:
        if v["sig"] not in seen:
            seen.add(v["sig"]); vs.append(v)
    return {"outcome": "identical" if not viol else "violating", "key": keys, "violations": vs, "stats": {"pairs": n}}


def summarize(cases_, results, tier):
    return {"evaluations": sum(r["stats"].get("pairs", 0) for r in results), "run_pairs_compared": sum(r["stats"].get("pairs", 0) for r in results)}
