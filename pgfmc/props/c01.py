"""C01 Optimal status implies first-order optimality of the user's own problem."""
import itertools
import signal

import numpy as np

from pgfmc.drive import grid as G
from pgfmc.drive import monitors as M
from pgfmc.model import specs as S

ID = "C01"
LEVEL = "exploration"
RULE = ("three exhaustively enumerated tables, every case one complete solve() on the real code: (A) all variable-kind tuples x all "
        "constraint bound-kind tuples (m<=2, function kinds cycling) x objectives x scalings {none, custom, Nominal, GradJac, KKT} under the "
        "default configuration; (B) core specs x configuration table (quick: one-factor + all pairs of Newton/step-solver/linear-solver/"
        "controller/penalty/active-set values, thorough: the full product) x scalings; (C) IntegrationSolver on generic specs under an alarm. "
        "Oracle on every Optimal result: KKT of the user's problem re-evaluated from the spec with scaled tolerances. distinct = Optimal "
        "results by (spec, scaling, configuration) having an active inequality multiplier, a non-zero bound multiplier or a non-trivial scaling")
ASSUMPTIONS = ["only runs that end Optimal are constrained; horizon 100 (quick) / 300 (thorough) iterations (runs that stop at the horizon are counted, not judged)",
               "rounding slack: factor 1+1e-6 on tolerances plus 16 ulp of the summands",
               "IntegrationSolver runs that hit the alarm or die from internal assertions are counted as not explored (C01 only speaks about returned Optimal)"]
CASE_ALARM_S = 120
TIMEOUTS_OK = True
HORIZON = {"quick": 100, "thorough": 300}


def kind_table(tier):
    out = []
    ns = (1, 2) if tier == "thorough" else (2,)
    for n in ns:
        objs = ["qdiag", "cubic"] if tier == "thorough" else ["qdiag"]
        for vk in itertools.product(S.VAR_KINDS, repeat=n):
            for m in (0, 1, 2):
                fnsets = [["affine", "sphere"], ["bilinear", "affine"]] if tier == "thorough" else [["affine", "sphere"]]
                for fns in (fnsets if m > 0 else [[]]):
                    for ks in itertools.product(S.ROW_KINDS, repeat=m):
                        for obj in objs:
                            out.append((n, obj, [(fns[i], k) for i, k in enumerate(ks)], list(vk)))
    return out


def cases(tier, seed):
    out = []
    # (A)
    scA = (0, 1, 4, 6) if tier == "quick" else (0, 1, 2, 3, 4, 5, 6)
    for (n, obj, rows, vk) in kind_table(tier):
        spec = S.mk(n, obj, rows, vk)
        for sc in G.scalings_of(spec, scA):
            out.append({"t": "A", "spec": spec, "cfg": {"iteration_limit": HORIZON[tier]}, "sc": sc})
    # (A') ranged rows of large magnitude and tiny relative width, active at either end
    for obj in ("qdiag", "qin", "lin"):
        for vk in (["free", "free"], ["boxed", "free"]):
            for rows in ([("affine", "narrow")], [("affine", "narrow"), ("affine", "eqoff")]):
                spec = S.mk(2, obj, rows, vk)
                for sc in G.scalings_of(spec, (0, 1)):
                    out.append({"t": "A", "spec": spec, "cfg": {"iteration_limit": HORIZON[tier]}, "sc": sc})
    # (A'') variables of large magnitude started a few 1e-3 inside a bound the objective pushes against
    for off in (4e-3, 1e-5, 0.0):
        for g in ([-2.0, 1.0], [-2.0, -3.0]):
            sp = G.raw(2, {"g": g, "H": [[1e-6, 0.0], [0.0, 1e-6]]}, [], [-1.0e6, -1.0e6], [2.0e6, 2.0e6], [2.0e6 - off, 0.0], f"bigbox_near_bound|{off}|{g}")
            out.append({"t": "A", "spec": sp, "cfg": {"iteration_limit": HORIZON[tier]}, "sc": None})
            sp2 = G.raw(2, {"g": g, "H": [[1e-6, 0.0], [0.0, 1e-6]]}, [{"a": [1.0, 1.0], "b": 0.0, "lb": "-inf", "ub": 2.5e6}], [-1.0e6, -1.0e6], [2.0e6, 2.0e6],
                        [2.0e6 - off, 1.0], f"bigbox_near_bound_cons|{off}|{g}")
            out.append({"t": "A", "spec": sp2, "cfg": {"iteration_limit": HORIZON[tier]}, "sc": None})
    # (A4) rows without any bound next to ordinary rows
    for obj in ("qdiag", "qin"):
        for vk in (["free", "free"], ["boxed", "lower"]):
            for rows in ([("affine", "freerow")], [("affine", "freerow"), ("affine", "eqoff")], [("sphere", "upper"), ("bilinear", "freerow")]):
                spec = S.mk(2, obj, rows, vk)
                for sc in G.scalings_of(spec, (0, 1)):
                    out.append({"t": "A", "spec": spec, "cfg": {"iteration_limit": HORIZON[tier]}, "sc": sc})
    # (A3) bounds that are not binary fractions, active at the solution
    for obj in ("qdiag", "qfull", "cubic", "lin"):
        for vk in (["odd", "odd"], ["odd", "free"], ["boxed", "odd"], ["narrowbox", "free"], ["boxed", "narrowbox"], ["intbox", "intbox"]):
            for rows in ([], [("affine", "ranged")], [("sphere", "upper")]):
                for x0i in (0, 1, 2, 3):
                    spec = S.mk(2, obj, rows, vk, x0_idx=x0i)
                    for sc in G.scalings_of(spec, (0, 2)):
                        out.append({"t": "A", "spec": spec, "cfg": {"iteration_limit": HORIZON[tier]}, "sc": sc})
    # (A5) non-default tolerances, controller gains, unvalidated input, user-supplied active-set rule
    for spec in G.core_specs():
        for vi, var in enumerate(G.PARAM_VARIANTS):
            for ctl in ("DistanceRatio", "Exact"):
                out.append({"t": "A", "spec": spec, "cfg": {"control": ctl, "iteration_limit": HORIZON[tier], "pv": vi}, "sc": G.scalings_of(spec, (0, 1))[vi % 2]})
    # (A7) constraints that are locally linear (positive-part cubics, C2): the Jacobian is the same at the start and at the first trial
    #      points and changes later
    for x0 in ([-30.0, 0.0], [-3.0, 1.0], [-0.5, -0.5]):
        for rk in ("eq", "upper"):
            row = {"a": [0.0, 1.0], "pcub": [-1.0, 0.0], "b": 0.0, "lb": 0.0 if rk == "eq" else "-inf", "ub": 0.0}
            spec = G.raw(2, {"H": [[2.0, 0.0], [0.0, 2.0]], "g": [-4.0, 0.0]}, [row], ["-inf", "-inf"], ["inf", "inf"], x0, f"locally_linear_row|{x0}|{rk}")
            for ctl in ("DistanceRatio", "Exact", "ResiduumRatio"):
                for sc in G.scalings_of(spec, (0, 1)):
                    out.append({"t": "A", "spec": spec, "cfg": {"control": ctl, "iteration_limit": 300}, "sc": sc})
    # (A6) unvalidated input on every row-kind tuple (slack-free problems with right-hand sides, three interleaved rows)
    vi_nv = next(i for i, v in enumerate(G.PARAM_VARIANTS) if v == {"validate_input": False})
    for rows in ([("affine", "eqoff")], [("affine", "eqoff"), ("sphere", "eqoff")], [("affine", "eq0"), ("bilinear", "eqoff")],
                 [("affine", "eqoff"), ("sphere", "lower"), ("bilinear", "upper")], [("affine", "ranged"), ("sphere", "eqoff"), ("bilinear", "upper")]):
        for vk in (["free", "free"], ["boxed", "lower"]):
            for obj in ("qdiag", "qfull"):
                spec = S.mk(2, obj, rows, vk, x0_idx=1)
                for pv in (vi_nv, None):
                    for sc in G.scalings_of(spec, (0, 1)):
                        cfg = {"iteration_limit": HORIZON[tier]}
                        if pv is not None:
                            cfg["pv"] = pv
                        out.append({"t": "A", "spec": spec, "cfg": cfg, "sc": sc})
    # (B)
    cfgs = G.configs_pairs() if tier == "quick" else G.configs_full()
    specsB = G.core_specs()
    for si, spec in enumerate(specsB):
        for ci, cfg in enumerate(cfgs):
            scs = G.scalings_of(spec, (0, 2)) if tier == "quick" else G.scalings_of(spec, (0, 2, 4))
            for sc in scs:
                c = dict(cfg); c["iteration_limit"] = HORIZON[tier]
                out.append({"t": "B", "spec": spec, "cfg": c, "sc": sc})
    if tier == "quick":
        # one slice (VERIF_SEED mod 24) of the thorough configuration product on two core specs
        full = G.slice_of(G.configs_full(), seed, 24)
        for spec in specsB[:2]:
            for cfg in full:
                c = dict(cfg); c["iteration_limit"] = HORIZON[tier]
                out.append({"t": "B", "spec": spec, "cfg": c, "sc": G.scalings_of(spec, (2,))[0]})
    # (C) flow-integration solver on generic-position specs
    for spec in integration_specs(tier):
        for sc in G.scalings_of(spec, (0, 1, 6)):
            out.append({"t": "C", "spec": spec, "cfg": {"params": {"rho": 1e-2}}, "sc": sc, "_alarm": 10})
    return out


def integration_specs(tier):
    out = []
    vks = [["free", "free"], ["boxed", "free"], ["lower", "upper"], ["boxed", "boxed"]]
    rowsets = [[], [("affine", "eq0")], [("affine", "ranged")], [("sphere", "upper")], [("affine", "eqoff"), ("affine", "lower")]]
    objs = ["qin", "qdiag", "qfull"] if tier == "quick" else ["qin", "qdiag", "qfull", "exp"]
    for vk in vks:
        for rows in rowsets:
            for obj in objs:
                for x0i in ((2, 1) if tier == "quick" else (2, 0, 1, 3)):   # 1 and 3 start on the bounds
                    out.append(S.mk(2, obj, rows, vk, x0_idx=x0i, tight=False))
    # starts on the boundary where one gradient component is EXACTLY zero (tie-break by the second derivative) while another variable
    # sits on a bound with a gradient pointing into the box
    import numpy as _np
    ties = [([[2.0, -1.0], [-1.0, 2.0]], [1.0, 1.0], ["inf", "inf"], [1.0, 1.0], [0.0, -2.0]),
            ([[3.0, -1.0], [-1.0, 2.0]], ["-inf", -2.0], [0.5, 0.25], [0.5, 0.25], [0.0, 2.0]),
            ([[3.0, -1.0], [-1.0, 2.0]], ["-inf", -2.0], [0.5, 0.25], [0.5, 0.25], [2.0, 0.0]),
            ([[2.0, 1.0, 0.0], [1.0, 3.0, 0.0], [0.0, 0.0, 1.0]], [-1.0, -3.0, "-inf"], [2.0, 0.75, "inf"], [-1.0, 0.75, 0.0], [0.0, 1.5, 0.0]),
            ([[2.0, 1.0, 0.0], [1.0, 3.0, 0.0], [0.0, 0.0, 1.0]], [-1.0, -3.0, "-inf"], [2.0, 0.75, "inf"], [2.0, 0.75, 0.0], [0.0, 1.5, 0.0]),
            ([[2.0, 0.5], [0.5, 1.0]], [-1.0, -1.0], [1.0, 1.0], [1.0, 1.0], [0.0, 1.0]),
            ([[2.0, 0.5], [0.5, 1.0]], [-1.0, -1.0], [1.0, 1.0], [-1.0, 1.0], [0.0, 1.0])]
    for Q, lb_, ub_, x0_, gr in ties:
        q = (_np.array(gr) - _np.array(Q).dot(_np.array(x0_))).tolist()
        out.append(G.raw(len(x0_), {"H": Q, "g": q}, [], lb_, ub_, x0_, f"boundary_tie|{Q}|{x0_}|{gr}"))
    # a fixed variable in front of / behind a variable that starts pinned at a bound and has to be released later
    for order in (0, 1):
        H3 = [[2.0, 0.0, 0.0], [0.0, 1.0, 1.0], [0.0, 1.0, 2.0]]
        g3 = [0.0, -2.0, -1.0]
        lb3, ub3 = ["-inf", "-inf", "-inf"], ["inf", "inf", 0.0]
        if order == 0:
            lb3[0], ub3[0] = 1.0, 1.0
            x03 = [1.0, 0.0, 0.0]
        else:
            H3 = [[1.0, 1.0, 0.0], [1.0, 2.0, 0.0], [0.0, 0.0, 2.0]]
            g3 = [-2.0, -1.0, 0.0]
            lb3, ub3 = ["-inf", "-inf", 1.0], ["inf", 0.0, 1.0]
            x03 = [0.0, 0.0, 1.0]
        out.append(G.raw(3, {"H": H3, "g": g3}, [], lb3, ub3, x03, f"fixed_and_pinned|{order}"))
    # coupled convex QPs started ON an upper bound whose multiplier changes sign along the flow
    for H, g, ub, x0 in (([[1.0, 1.0], [1.0, 2.0]], [-2.0, -1.0], ["inf", 0.0], [0.0, 0.0]), ([[1.0, 1.0], [1.0, 2.0]], [-1.0, -2.0], [0.0, "inf"], [0.0, 0.0]),
                         ([[1.0, 1.0], [1.0, 2.0]], [-2.0, 1.0], ["inf", 0.0], [0.0, 0.0]), ([[2.0, 1.5], [1.5, 2.0]], [-3.0, 0.5], [4.0, 0.0], [0.0, 0.0]),
                         ([[1.0, -0.8], [-0.8, 1.0]], [1.0, -2.0], [0.0, "inf"], [0.0, 0.0])):
        out.append(G.raw(2, {"H": H, "g": g}, [], ["-inf", "-inf"], ub, x0, f"coupled_upper|{H}|{g}"))
    return out


def run_case(case):
    if case["t"] == "C":
        return run_integration(case)
    case = G.with_variant(case)
    ctx = G.execute(case)
    if ctx.setup_error is not None:
        return {"outcome": "setup:" + type(ctx.setup_error).__name__, "key": None, "violations": [], "stats": {}}
    rec = ctx.rec
    viol = M.mon_c01(rec, ctx.F, ctx.weights, ctx.params)
    return finish(case, rec.result, R_outcome(rec), viol, ctx)


def R_outcome(rec):
    from pgfmc.drive.run import outcome_of

    return outcome_of(rec)


def finish(case, result, outcome, viol, ctx):
    key = None
    stats = {}
    if result is not None and result.status.name == "Optimal":
        y, d = np.asarray(result.y), np.asarray(result.d)
        F = ctx.F
        ineq = [i for i in range(F.m) if F.cons_lb[i] != F.cons_ub[i]]
        act_y = any(abs(y[i]) > 1e-4 for i in ineq)
        act_d = bool(np.any(np.abs(d) > 1e-4))
        scaled = ctx.weights is not None and (any(ctx.weights["vw"]) or any(ctx.weights["cw"]) or ctx.weights["ow"] != 0)
        stats = {"opt": 1, "act_y": int(act_y), "act_d": int(act_d), "scaled": int(scaled), "it": int(result.iterations)}
        if act_y or act_d or scaled:
            key = f"{case['spec']['tag']}|{ctx.weights}|{G.cfg_key(case['cfg'])}|{case['t']}"
    return {"outcome": outcome, "key": key, "violations": viol, "stats": stats}


def run_integration(case):
    from pygradflow.integration.integration_solver import IntegrationSolver
    from pgfmc.drive.problems import UserProblem
    from pgfmc.drive import run as R
    from pgfmc.model.oracle import Funcs

    spec = case["spec"]
    F = Funcs(spec)
    prob = UserProblem(spec)
    params = R.make_params(case["cfg"], case["sc"])
    ctx = G.Ctx()
    ctx.F = F
    try:
        solver = IntegrationSolver(prob, params)
        with np.errstate(all="ignore"):
            result = solver.solve(np.array(spec["x0"]), np.array(spec["y0"]))
    except Exception as e:
        if type(e).__name__ == "CaseTimeout":
            raise
        return {"outcome": "integration-died:" + type(e).__name__, "key": None, "violations": [], "stats": {}}
    sc = getattr(getattr(solver, "transform", None), "scaling", None)
    ctx.weights = None if sc is None else {"vw": [int(v) for v in sc.var_weights], "cw": [int(v) for v in sc.cons_weights], "ow": int(sc.obj_weight)}
    rec = G.Ctx()
    rec.result = result
    viol = M.mon_c01(rec, F, ctx.weights, params)
    for v in viol:
        v["sig"] = v["sig"].replace("C01|", "C01|integration|")
    case2 = dict(case)
    return finish(case2, result, "integration:" + result.status.name, viol, ctx)


def summarize(cases_, results, tier):
    s = {k: sum(r["stats"].get(k, 0) for r in results) for k in ("opt", "act_y", "act_d", "scaled")}
    s["max_iterations_optimal"] = max([r["stats"].get("it", 0) for r in results] + [0])
    s["integration_optimal"] = sum(1 for r in results if r["outcome"] == "integration:Optimal")
    return {"optimal_results": s["opt"], "optimal_with_active_inequality": s["act_y"], "optimal_with_active_bound": s["act_d"],
            "optimal_with_scaling": s["scaled"], "max_iterations_optimal": s["max_iterations_optimal"],
            "integration_optimal": s["integration_optimal"]}


def vacuity(cases_, results, tier):
    s = summarize(cases_, results, tier)
    out = []
    for k in ("optimal_with_active_inequality", "optimal_with_active_bound", "optimal_with_scaling"):
        if s[k] < 50:
            out.append(f"{k}={s[k]} < 50")
    if s["integration_optimal"] < 5:
        out.append("integration solver produced fewer than 5 Optimal results")
    return out
