#!/bin/bash
# usage: tools/confirm_batch.sh C17 C11 ...  (both changes of each, 6 in parallel; a property's two changes run sequentially: same worktree)
cd /verif
printf "%s\n" "$@" | xargs -P 6 -I{} bash -c 'tools/confirm_mutation.sh {} 1 2>&1 | grep -v "^WARNING conda" | tail -2; tools/confirm_mutation.sh {} 2 2>&1 | grep -v "^WARNING conda" | tail -2'
