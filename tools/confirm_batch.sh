#!/bin/bash
# usage: tools/confirm_batch.sh C17 C11 ...  (both changes of each, 6 in parallel; a property's two changes run sequentially: same worktree)
cd /verif
printf "%s\n" "$@" | xargs -P 6 -I{} bash -c 'for k in ${KS:-1 2}; do tools/confirm_mutation.sh {} $k 2>&1 | grep -v "^WARNING conda" | tail -2; done'
