#!/bin/bash
# usage: tools/eval_seeded.sh <seeded-id> [tier] [check ids...]  -- applies the seeded change to /repo, runs checks, reverts.
set -u
ID=$1; TIER=${2:-quick}; shift; shift || true
D=/verif/seeded/$ID
P=$(python3 -c "import json;print(json.load(open('$D/meta.json'))['property'])")
CHECKS="${*:-$P}"
cd /repo && git status --short | grep -q . && { echo "/repo dirty"; exit 2; }
git -C /repo apply $D/patch.diff || { echo "patch does not apply"; exit 2; }
cd /verif
for c in $CHECKS; do
  out=$(./check $c $TIER 2>&1); rc=$?
  echo "SEEDED $ID check=$c tier=$TIER rc=$rc $(echo "$out" | grep -c '^VIOLATION') violations"
  echo "$out" | grep -A1 '^VIOLATION' | grep 'sig=' | head -3 | cut -c1-220
done
git -C /repo checkout -- .
