#!/bin/bash
# usage: tools/confirm_mutation.sh C07 1   -- confirms sub-agent change k for property in its scratch worktree
# (demo fails with the change, suite keeps its 209 passes, demo passes without) and files it under seeded/.
set -u
P=$1; K=$2; WT=/tmp/wt/$P; OUT=$WT/_out/$K; DEST=/verif/seeded/$P-$K
cd $WT || exit 2
git checkout -q -- pygradflow; git status --short pygradflow | head -3
[ -f $OUT/patch.diff ] || { echo "no patch"; exit 2; }
run_demo() { (cd $WT && PYTHONPATH=$WT OMP_NUM_THREADS=1 timeout 600 /venv/bin/python $OUT/demo.py >/tmp/wt/$P.demo.$1.log 2>&1; echo $?); }
d0=$(run_demo clean)
git apply $OUT/patch.diff || { echo "patch does not apply"; exit 2; }
d1=$(run_demo mutated)
suite=$(/verif/tools/run_suite.sh $WT | grep SUITE)
git checkout -q -- pygradflow
echo "$P-$K demo_clean_rc=$d0 demo_mutated_rc=$d1 $suite"
ok=0; [ "$d0" = "0" ] && [ "$d1" != "0" ] && echo "$suite" | grep -q "baseline_missing=0" && ok=1
if [ $ok = 1 ]; then
  mkdir -p $DEST; cp $OUT/patch.diff $OUT/demo.py $DEST/; cp $OUT/notes.md $DEST/notes.md 2>/dev/null
  PROP=$P
  case "$P" in F*|P*|Q*|R*|S*|T*) PROP=$(grep -o -i -m1 "property: *C[0-9][0-9]" $OUT/notes.md | grep -o "C[0-9][0-9]");; esac
  [ -n "$PROP" ] || { echo "no property named in notes.md"; exit 2; }
  python3 - "$P" "$K" "$d0" "$d1" "$suite" "$PROP" <<'PY'
import json,sys
p,k,d0,d1,suite,prop=sys.argv[1:7]
json.dump({"property":prop,"id":f"{p}-{k}","source":"independent sub-agent (saw only the property text(s) and a scratch worktree)",
 "confirmed":{"demo_rc_unmodified":int(d0),"demo_rc_with_change":int(d1),"suite":suite,
 "how":"tools/confirm_mutation.sh: apply in scratch worktree, run demo.py, run the repository suite against BASELINE.json, revert, run demo.py"},
 "needs_to_manifest":"see notes.md","detected_by":None}, open(f"/verif/seeded/{p}-{k}/meta.json","w"), indent=1)
PY
  echo "CONFIRMED -> $DEST"
else
  echo "NOT CONFIRMED"; tail -5 /tmp/wt/$P.demo.clean.log /tmp/wt/$P.demo.mutated.log
fi
