#!/usr/bin/env python3
"""Applies every seeded change to /repo in turn, runs the quick check of its property (plus extra checks given
in EXTRA), reverts, and records what was detected in seeded/<id>/meta.json and seeded/RESULTS.md."""
import json, os, re, subprocess, sys
V = "/verif"
EXTRA = {"C01-1": ["C04"], "C01-2": ["C13"], "C14-1": [], "C08-2": ["C02"], "C13-2": ["C14"], "C03-2": ["C13"]}
ids = sorted(d for d in os.listdir(f"{V}/seeded") if os.path.isdir(f"{V}/seeded/{d}"))
if len(sys.argv) > 1:
    ids = [i for i in ids if i in sys.argv[1:]]
rows = []
for sid in ids:
    d = f"{V}/seeded/{sid}"
    meta = json.load(open(f"{d}/meta.json"))
    if subprocess.run(["git", "-C", "/repo", "status", "--short"], capture_output=True, text=True).stdout.strip():
        sys.exit("/repo dirty")
    subprocess.run(["git", "-C", "/repo", "apply", f"{d}/patch.diff"], check=True)
    det = {}
    try:
        for chk in [meta["property"]] + EXTRA.get(sid, []):
            p = subprocess.run(["./check", chk, "quick"], cwd=V, capture_output=True, text=True)
            sigs = re.findall(r"sig=(\S+) count=(\d+)", p.stdout)
            det[chk] = {"rc": p.returncode, "signatures": [s for s, _ in sigs][:6]}
    finally:
        subprocess.run(["git", "-C", "/repo", "checkout", "--", "."], check=True)
    meta["detected_by"] = det
    meta["detected"] = any(v["rc"] == 1 for v in det.values())
    json.dump(meta, open(f"{d}/meta.json", "w"), indent=1)
    rows.append((sid, det))
    print(sid, {k: (v["rc"], v["signatures"][:2]) for k, v in det.items()}, flush=True)
with open(f"{V}/seeded/RESULTS.md", "w") as f:
    f.write("| seeded change | check | rc | first signatures |\n|---|---|---|---|\n")
    for sid in sorted(os.listdir(f"{V}/seeded")):
        mp = f"{V}/seeded/{sid}/meta.json"
        if os.path.exists(mp):
            m = json.load(open(mp))
            for chk, v in (m.get("detected_by") or {}).items():
                f.write(f"| {sid} | {chk} | {v['rc']} | {', '.join(v['signatures'][:3])} |\n")
