#!/usr/bin/env python3
"""Evaluates seeded changes in a scratch worktree of /repo's HEAD (PGF_REPO points the checks at it, so /repo itself stays
untouched and the committed evidence is not overwritten): apply, run the quick check of the property (plus EXTRA checks),
record what was detected in seeded/<id>/meta.json and seeded/RESULTS.md.   usage: eval_all_seeded.py [--only-new] [ids...]"""
import json, os, re, subprocess, sys
V = "/verif"
WT = "/tmp/wt/eval"
EXTRA = {"C01-1": ["C04"], "C01-2": ["C13"], "C08-2": ["C02"], "C03-2": ["C13"], "C02-4": ["C08"], "C08-3": ["C12"], "C08-4": ["C09"],
         "C09-4": ["C08"], "C12-4": ["C02"], "C01-4": ["C04"], "C05-4": ["C04"], "C20-3": ["C11"], "C07-4": ["C09"], "C11-3": ["C20"], "C14-4": ["C17"], "C18-5": ["C10"], "C04-5": ["C11"], "C12-6": ["C10"], "C08-5": ["C10"], "C17-6": ["C14"], "C02-6": ["C04"], "C14-6": ["C11"], "C20-5": ["C04"], "C13-5": ["C11"], "C01-5": ["C05"], "C01-6": ["C04"], "C19-6": ["C08"], "C06-6": ["C09"], "C03-5": ["C15"], "C03-6": ["C13", "C14"], "F11-1": ["C09"], "F15-1": ["C09"], "F16-1": ["C17"], "P03-2": ["C15"], "P04-1": ["C04"], "P06-1": ["C15"], "P06-2": ["C15"], "P07-1": ["C01"], "P08-2": ["C08"], "P11-2": ["C08"], "Q02-2": ["C01"], "Q04-1": ["C14"], "Q04-2": ["C14"], "Q05-2": ["C03"], "Q07-2": ["C06"], "R05-2": ["C06", "C09"], "S05-2": ["C10"], "T08-1": ["C20"], "T04-1": ["C01"]}
args = [a for a in sys.argv[1:] if not a.startswith("--")]
only_new = "--only-new" in sys.argv
ids = sorted(d for d in os.listdir(f"{V}/seeded") if os.path.isdir(f"{V}/seeded/{d}"))
if args:
    ids = [i for i in ids if i in args]
head = subprocess.run(["git", "-C", "/repo", "rev-parse", "HEAD"], capture_output=True, text=True).stdout.strip()
if not os.path.isdir(WT):
    subprocess.run(["git", "-C", "/repo", "worktree", "add", "-q", "--detach", WT, head], check=True)
env = dict(os.environ, PGF_REPO=WT, VERIF_EVIDENCE_DIR="/tmp/wt/eval_evidence", VERIF_REPLAY_DIR="/tmp/wt/eval_replays")
for sid in ids:
    d = f"{V}/seeded/{sid}"
    meta = json.load(open(f"{d}/meta.json"))
    if only_new and meta.get("detected_by"):
        continue
    subprocess.run(["git", "-C", WT, "checkout", "-q", "--detach", head], check=True)
    subprocess.run(["git", "-C", WT, "checkout", "-q", "--", "."], check=True)
    if subprocess.run(["git", "-C", WT, "apply", f"{d}/patch.diff"]).returncode != 0:
        # written against a tree from before a later fix commit touched the same lines: the recorded evaluation (made then) stands
        print(sid, "patch does not apply to the current HEAD; earlier record kept:", {k: v["rc"] for k, v in (meta.get("detected_by") or {}).items()}, flush=True)
        continue
    det = {}
    try:
        for chk in [meta["property"]] + EXTRA.get(sid, []):
            p = subprocess.run(["./check", chk, "quick"], cwd=V, capture_output=True, text=True, env=env)
            sigs = re.findall(r"sig=(.+?) count=(\d+)", p.stdout)
            det[chk] = {"rc": p.returncode, "signatures": [s for s, _ in sigs][:6]}
    finally:
        subprocess.run(["git", "-C", WT, "checkout", "-q", "--", "."], check=True)
    meta["detected_by"] = det
    meta["detected"] = any(v["rc"] == 1 for v in det.values())
    json.dump(meta, open(f"{d}/meta.json", "w"), indent=1)
    print(sid, {k: (v["rc"], v["signatures"][:2]) for k, v in det.items()}, flush=True)
with open(f"{V}/seeded/RESULTS.md", "w") as f:
    f.write("| seeded change | check | rc (1 = violation reported) | first signatures |\n|---|---|---|---|\n")
    for sid in sorted(os.listdir(f"{V}/seeded")):
        mp = f"{V}/seeded/{sid}/meta.json"
        if os.path.exists(mp):
            m = json.load(open(mp))
            for chk, v in (m.get("detected_by") or {}).items():
                f.write(f"| {sid} | {chk} | {v['rc']} | {', '.join(v['signatures'][:3])} |\n")
