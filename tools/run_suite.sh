#!/bin/bash
# Runs the repository's own test suite on a tree (default /repo) and compares with BASELINE.json.
# usage: tools/run_suite.sh [repo_dir]
REPO="${1:-/repo}"
OUT="$(mktemp -d /tmp/suite.XXXXXX)"
cd "$REPO" && /venv/bin/python -m pytest -ra -q -p no:cacheprovider --timeout=900 --continue-on-collection-errors --junitxml="$OUT/j.xml" >"$OUT/log" 2>&1
/venv/bin/python - "$OUT/j.xml" <<'PY'
import json, sys, xml.etree.ElementTree as ET
base = set(json.load(open('/root/.vp/BASELINE.json'))['stable_pass'])
passed = set()
for tc in ET.parse(sys.argv[1]).getroot().iter('testcase'):
    name = tc.get('classname') + '::' + tc.get('name')
    if not any(c.tag in ('failure', 'error', 'skipped') for c in tc):
        passed.add(name)
missing = sorted(base - passed)
print(f"SUITE passed={len(passed)} baseline={len(base)} baseline_missing={len(missing)}")
for m in missing[:20]:
    print("  MISSING", m)
PY
rm -rf "$OUT"
