#!/usr/bin/env python3
"""Systematic small mutants inside the mechanism ranges the properties are anchored in (an evaluation aid, not a deciding technique):
for every AST node in range apply one operator-level change, keep the mutants under which the repository's own suite still passes,
run the quick check of every property anchored there, and list the survivors for triage (equivalent / not property-relevant / a gap).

usage: mutate.py gen  > /tmp/mut/mutants.json          (enumerate)
       mutate.py suite <k-of-n> ...                     (stage A: suite filter, run as n parallel shards)
       mutate.py check                                  (stage B: quick checks for suite-passing mutants)
"""
import ast
import copy
import json
import os
import re
import subprocess
import sys

V = "/verif"
REPO = "/repo"
WORK = "/tmp/mut"

CMP = {ast.Lt: ast.LtE, ast.LtE: ast.Lt, ast.Gt: ast.GtE, ast.GtE: ast.Gt, ast.Eq: ast.NotEq, ast.NotEq: ast.Eq}
CMP2 = {ast.Lt: ast.Gt, ast.LtE: ast.GtE, ast.Gt: ast.Lt, ast.GtE: ast.LtE}
BIN = {ast.Add: ast.Sub, ast.Sub: ast.Add, ast.Mult: ast.Div, ast.Div: ast.Mult}


def anchors():
    """{file: [(lo, hi, prop)]} with the window used by the line witness."""
    out = {}
    for line in open(f"{V}/properties.jsonl"):
        p = json.loads(line)
        for m in p["anchors"].get("mechanism", []):
            last = None
            for part in re.split(r"[,;]\s*", m.get("where", "")):
                mm = re.match(r"\s*([\w/\.]+\.py)?:?\s*(\d+)(?:-(\d+))?\s*$", part)
                if not mm:
                    continue
                fn = mm.group(1) or last
                if fn is None:
                    continue
                if not fn.startswith("pygradflow/"):
                    fn = os.path.join(os.path.dirname(last or "pygradflow/x"), fn)
                last = fn
                lo, hi = int(mm.group(2)), int(mm.group(3) or mm.group(2))
                out.setdefault(fn, []).append((lo - 4, hi + 12, p["id"]))
    return out


class Mut(ast.NodeTransformer):
    """Applies the k-th applicable mutation (in traversal order) inside the line ranges; counts applicable ones."""

    def __init__(self, ranges, target):
        self.ranges, self.target, self.count, self.desc, self.line, self.props = ranges, target, 0, None, None, None

    def inr(self, node):
        ln = getattr(node, "lineno", None)
        if ln is None:
            return None
        ps = sorted({p for lo, hi, p in self.ranges if lo <= ln <= hi})
        return ps or None

    def hit(self, node, desc):
        ps = self.inr(node)
        if ps is None:
            return False
        self.count += 1
        if self.count - 1 == self.target:
            self.desc, self.line, self.props = desc, node.lineno, ps
            return True
        return False

    def visit_Compare(self, node):
        self.generic_visit(node)
        if len(node.ops) == 1:
            t = type(node.ops[0])
            if t in CMP and self.hit(node, f"{t.__name__}->{CMP[t].__name__}"):
                n = copy.deepcopy(node); n.ops = [CMP[t]()]; return n
            if t in CMP2 and self.hit(node, f"{t.__name__}->{CMP2[t].__name__}"):
                n = copy.deepcopy(node); n.ops = [CMP2[t]()]; return n
        return node

    def visit_BinOp(self, node):
        self.generic_visit(node)
        t = type(node.op)
        if t in BIN and self.hit(node, f"{t.__name__}->{BIN[t].__name__}"):
            n = copy.deepcopy(node); n.op = BIN[t](); return n
        return node

    def visit_BoolOp(self, node):
        self.generic_visit(node)
        t = type(node.op)
        o = ast.Or if t is ast.And else ast.And
        if self.hit(node, f"{t.__name__}->{o.__name__}"):
            n = copy.deepcopy(node); n.op = o(); return n
        if len(node.values) == 2:
            for k in (0, 1):
                if self.hit(node, f"drop operand {k} of {t.__name__}"):
                    return copy.deepcopy(node.values[1 - k])
        return node

    def visit_UnaryOp(self, node):
        self.generic_visit(node)
        if isinstance(node.op, ast.Not) and self.hit(node, "drop not"):
            return copy.deepcopy(node.operand)
        if isinstance(node.op, ast.USub) and self.hit(node, "drop unary minus"):
            return copy.deepcopy(node.operand)
        return node

    def visit_Constant(self, node):
        v = node.value
        if isinstance(v, bool):
            if self.hit(node, f"{v}->{not v}"):
                return ast.copy_location(ast.Constant(not v), node)
        elif isinstance(v, (int, float)) and not isinstance(v, bool):
            for nv, d in ((v * 2 if v != 0 else 1, "x2"), (v + 1, "+1"), (0 if v != 0 else -1, "->0")):
                if self.hit(node, f"const {v!r} {d}"):
                    return ast.copy_location(ast.Constant(nv), node)
        return node

    def visit_If(self, node):
        self.generic_visit(node)
        if self.hit(node, "if: condition negated"):
            n = copy.deepcopy(node); n.test = ast.UnaryOp(ast.Not(), n.test); return ast.fix_missing_locations(n)
        return node

    def visit_Return(self, node):
        self.generic_visit(node)
        return node

    def visit_AugAssign(self, node):
        self.generic_visit(node)
        t = type(node.op)
        if t in BIN and self.hit(node, f"aug {t.__name__}->{BIN[t].__name__}"):
            n = copy.deepcopy(node); n.op = BIN[t](); return n
        return node

    def visit_Call(self, node):
        self.generic_visit(node)
        f = node.func
        name = f.attr if isinstance(f, ast.Attribute) else getattr(f, "id", None)
        swaps = {"min": "max", "max": "min", "minimum": "maximum", "maximum": "minimum", "any": "all", "all": "any",
                 "logical_and": "logical_or", "logical_or": "logical_and", "floor": "ceil", "ceil": "floor"}
        if name in swaps and self.hit(node, f"{name}->{swaps[name]}"):
            n = copy.deepcopy(node)
            if isinstance(n.func, ast.Attribute):
                n.func.attr = swaps[name]
            else:
                n.func.id = swaps[name]
            return n
        return node


def docstring_lines(tree):
    out = set()
    for node in ast.walk(tree):
        if isinstance(node, (ast.FunctionDef, ast.ClassDef, ast.Module)) and node.body and isinstance(node.body[0], ast.Expr) \
                and isinstance(getattr(node.body[0], "value", None), ast.Constant) and isinstance(node.body[0].value.value, str):
            out.update(range(node.body[0].lineno, node.body[0].end_lineno + 1))
    return out


def current_ranges(fn, ranges):
    """The anchors' line numbers refer to the pinned tree: shift them by the offset the fix commits introduced (per file, via git blame-free
    heuristic: map pinned line -> current line through `git diff` hunks)."""
    pinned = subprocess.run(["git", "-C", REPO, "rev-list", "--max-parents=0", "HEAD"], capture_output=True, text=True).stdout.split()[0]
    base = subprocess.run(["git", "-C", REPO, "log", "--format=%H", "--reverse"], capture_output=True, text=True).stdout.split()
    # the pinned commit is the last one whose message does not start with "fix:"
    msgs = subprocess.run(["git", "-C", REPO, "log", "--format=%H %s"], capture_output=True, text=True).stdout.splitlines()
    pin = next(l.split()[0] for l in msgs if not l.split(" ", 1)[1].startswith("fix:"))
    d = subprocess.run(["git", "-C", REPO, "diff", "-U0", pin, "HEAD", "--", fn], capture_output=True, text=True).stdout
    hunks = [(int(a), int(b or 1), int(c), int(e or 1)) for a, b, c, e in re.findall(r"^@@ -(\d+)(?:,(\d+))? \+(\d+)(?:,(\d+))? @@", d, re.M)]

    def shift(ln):
        off = 0
        for a, b, c, e in hunks:
            if a + max(b, 1) - 1 < ln:
                off = (c + e) - (a + b)
        return ln + off

    return [(shift(lo), shift(hi), p) for lo, hi, p in ranges]


def gen():
    out = []
    for fn, ranges in sorted(anchors().items()):
        path = os.path.join(REPO, fn)
        if not os.path.exists(path):
            continue
        src = open(path).read()
        tree = ast.parse(src)
        rs = current_ranges(fn, ranges)
        k = 0
        while True:
            m = Mut(rs, k)
            new = m.visit(copy.deepcopy(tree))
            if m.desc is None:
                break
            ast.fix_missing_locations(new)
            out.append({"id": len(out), "file": fn, "k": k, "line": m.line, "desc": m.desc, "props": m.props})
            k += 1
    return out


def mutated_source(fn, k):
    src = open(os.path.join(REPO, fn)).read()
    tree = ast.parse(src)
    rs = current_ranges(fn, anchors()[fn])
    m = Mut(rs, k)
    new = m.visit(tree)
    ast.fix_missing_locations(new)
    return ast.unparse(new) + "\n"


def prepare(wdir, mut):
    subprocess.run(["rsync", "-a", "--delete", "--exclude", ".git", "--exclude", "__pycache__", REPO + "/", wdir + "/"], check=True)
    open(os.path.join(wdir, mut["file"]), "w").write(mutated_source(mut["file"], mut["k"]))


def suite(shard, nshards):
    muts = json.load(open(f"{WORK}/mutants.json"))
    wdir = f"{WORK}/w{shard}"
    os.makedirs(wdir, exist_ok=True)
    res_path = f"{WORK}/suite_{shard}.jsonl"
    done = set()
    for fn in os.listdir(WORK):
        if fn.startswith("suite_") and fn.endswith(".jsonl"):
            done |= {json.loads(l)["id"] for l in open(f"{WORK}/{fn}")}
    with open(res_path, "a") as f:
        for mut in muts:
            if mut["id"] % nshards != shard or mut["id"] in done:
                continue
            prepare(wdir, mut)
            p = subprocess.run([f"{V}/tools/run_suite.sh", wdir], capture_output=True, text=True, env=dict(os.environ, OMP_NUM_THREADS="1"))
            mm = re.search(r"baseline_missing=(\d+)", p.stdout)
            f.write(json.dumps({"id": mut["id"], "missing": int(mm.group(1)) if mm else -1}) + "\n")
            f.flush()


def check():
    muts = {m["id"]: m for m in json.load(open(f"{WORK}/mutants.json"))}
    passing = []
    for fn in os.listdir(WORK):
        if fn.startswith("suite_"):
            for l in open(f"{WORK}/{fn}"):
                r = json.loads(l)
                if r["missing"] == 0:
                    passing.append(r["id"])
    res_path = f"{WORK}/check.jsonl"
    done = {json.loads(l)["id"] for l in open(res_path)} if os.path.exists(res_path) else set()
    wdir = f"{WORK}/wc"
    os.makedirs(wdir, exist_ok=True)
    env = dict(os.environ, PGF_REPO=wdir, VERIF_EVIDENCE_DIR=f"{WORK}/ev", VERIF_REPLAY_DIR=f"{WORK}/rp")
    with open(res_path, "a") as f:
        for i in sorted(passing):
            if i in done:
                continue
            mut = muts[i]
            prepare(wdir, mut)
            det = {}
            speed = {"C20": 1, "C19": 4, "C18": 15, "C17": 10, "C11": 9, "C12": 11, "C14": 20, "C02": 20, "C13": 24, "C15": 25, "C16": 25, "C08": 30, "C03": 36,
                     "C04": 41, "C07": 47, "C06": 51, "C10": 53, "C09": 54, "C01": 61, "C05": 62}
            for prop in sorted(mut["props"], key=lambda q: speed.get(q, 99)):
                p = subprocess.run(["./check", prop, "quick"], cwd=V, capture_output=True, text=True, env=env)
                sigs = re.findall(r"sig=(.+?) count=", p.stdout)
                det[prop] = {"rc": p.returncode, "sigs": sigs[:3]}
                if p.returncode == 1:
                    break
            f.write(json.dumps({"id": i, "file": mut["file"], "line": mut["line"], "desc": mut["desc"], "det": det}) + "\n")
            f.flush()
            print(i, mut["file"], mut["line"], mut["desc"], {k: v["rc"] for k, v in det.items()}, flush=True)


if __name__ == "__main__":
    os.makedirs(WORK, exist_ok=True)
    if sys.argv[1] == "gen":
        ms = gen()
        json.dump(ms, open(f"{WORK}/mutants.json", "w"), indent=0)
        import collections
        print(len(ms), collections.Counter(m["file"] for m in ms).most_common())
    elif sys.argv[1] == "suite":
        suite(int(sys.argv[2]), int(sys.argv[3]))
    elif sys.argv[1] == "check":
        check()
    elif sys.argv[1] == "show":
        print(mutated_source(sys.argv[2], int(sys.argv[3])))
