#!/bin/bash
# usage: tools/run_all.sh quick|thorough [seed]   -- runs every claimed check, prints one line per check
TIER="${1:-quick}"; export VERIF_SEED="${2:-0}"
cd "$(dirname "$0")/.."
for id in $(python3 -c "import json;print(' '.join(c['property_id'] for c in json.load(open('MANIFEST.json'))['checks']))"); do
  s=$(date +%s); out=$(./check $id $TIER 2>&1); rc=$?; e=$(date +%s)
  echo "$id rc=$rc t=$((e-s))s $(echo "$out" | grep -c '^VIOLATION') violations $(echo "$out" | grep -c '^KNOWN-FINDING') known $(echo "$out" | grep -c 'HARNESS-ERROR') harness"
  if [ $rc -ne 0 ]; then echo "$out" | grep -A2 "VIOLATION\|HARNESS" | head -12; fi
done
