#!/usr/bin/env python3
"""Regenerates MANIFEST.json from the table below (run after adding a check)."""
import json, os
HERE = os.path.dirname(os.path.abspath(__file__))
CHECKS = json.load(open(os.path.join(HERE, "manifest_checks.json")))
props = [json.loads(l) for l in open(os.path.join(HERE, "properties.jsonl"))]
ids = [p["id"] for p in props]
claimed = {c["property_id"] for c in CHECKS["checks"]}
man = {
    "version": 1,
    "setup_cmd": "./check selftest",
    "hooks": {
        "guard": "PYGRADFLOW_VERIF",
        "enable": "no source hooks: checks import /repo's working tree (PYTHONPATH) and observe through subclassing, wrapper problems and module-attribute substitution; ./check exports PYGRADFLOW_VERIF=1 for uniformity",
        "baseline_off_cmd": "cd /repo && /venv/bin/python -m pytest -ra -q -p no:cacheprovider --timeout=900 --continue-on-collection-errors",
        "source_commits": [],
        "add_only": True,
    },
    "engines": CHECKS["engines"],
    "checks": [],
    "notes": CHECKS.get("notes", ""),
    "not_applicable": [],
}
for c in CHECKS["checks"]:
    pid = c["property_id"]
    man["checks"].append({
        "property_id": pid,
        "quick_cmd": f"./check {pid} quick",
        "thorough_cmd": f"./check {pid} thorough",
        "evidence_file": f"/verif/evidence/{pid}.json",
        "replay_cmd_template": "./check replay {path}",
        "engine": c.get("engine", "pgfmc"),
        "level_claimed": {"category": c["category"], "text": c["text"], "design_ref": c.get("design_ref", "DESIGN.md §3")},
        "level_note": c["level_note"],
        "technique": c["technique"],
    })
for pid in ids:
    if pid not in claimed:
        man["not_applicable"].append({"property_id": pid, "reason": CHECKS.get("unclaimed", {}).get(pid, "check not built yet in this round; not claimed until it runs silently on the unchanged tree")})
json.dump(man, open(os.path.join(HERE, "MANIFEST.json"), "w"), indent=1)
print("claimed", sorted(claimed), "unclaimed", len(man["not_applicable"]))
