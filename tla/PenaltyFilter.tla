---------------------------- MODULE PenaltyFilter ----------------------------
(* Reference model of pygradflow's PenaltyFilter.update: a set of non-dominated
   (objective-like, violation-like) pairs and a penalty exponent k (rho = rho0*10^k).
   `last` is a history variable recording the inserted pair and the verdict, so that
   every edge of the state graph identifies the event that produced it. *)
EXTENDS Naturals, FiniteSets

CONSTANTS V, K        \* value grid and bound on the number of refusals

VARIABLES entries, k, last

Dominates(e, f) == e[1] <= f[1] /\ e[2] <= f[2]

Init == entries = {} /\ k = 0 /\ last = <<0, 0, "init">>

Insert(a, b) ==
    LET p == <<a, b>> IN
    IF \E e \in entries : Dominates(e, p)
    THEN /\ k < K
         /\ entries' = entries
         /\ k' = k + 1
         /\ last' = <<a, b, "refused">>
    ELSE /\ entries' = {e \in entries : ~Dominates(p, e)} \cup {p}
         /\ k' = k
         /\ last' = <<a, b, "accepted">>

Next == \E a \in V, b \in V : Insert(a, b)

Spec == Init /\ [][Next]_<<entries, k, last>>

Pareto == \A e \in entries : \A f \in entries : (e # f) => ~Dominates(e, f)
TypeOK == entries \subseteq (V \X V) /\ k \in 0..K
=============================================================================
