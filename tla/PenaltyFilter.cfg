SPECIFICATION Spec
CONSTANTS
  V = {0, 1, 2}
  K = 2
INVARIANTS Pareto TypeOK
